package main

import (
	"fmt"
	"regexp"
	"strings"
	"unicode/utf8"

	kpretty "github.com/kr/pretty"

	"verif/internal/check"
	"verif/internal/model"
	"verif/sim/scen"
)

// Trigger predicates of the known findings. A predicate looks at the scenario
// (never at the outcome) and must hold for the violating item itself: the
// call named by the violation, or the file the violating item lives in.

var headerLikeRE = regexp.MustCompile(`(?m)^\[.+ - \d+\]$`)

// headerLineRE captures the name part of a header-like line; goTestIDRE is the
// shape the library's own header recognition accepts.
var headerLineRE = regexp.MustCompile(`(?m)^\[(.+) - \d+\]$`)
var goTestIDRE = regexp.MustCompile(`(?m)^\[(Test|Benchmark|Fuzz).* - \d+\]$`)

type callRef struct {
	life int
	call *scen.Call
	test string
	site int
	file string // concrete multi-entry file, "" for standalone
	text string
}

func worldCalls(w *check.World) []callRef {
	var out []callRef
	for li, l := range w.Lifetimes {
		var rec func(n *scen.TestNode, full string, site int)
		rec = func(n *scen.TestNode, full string, site int) {
			for i := range n.Steps {
				s := &n.Steps[i]
				switch s.Kind {
				case "call":
					c := s.Call
					var cfg *scen.ConfigSpec
					if c.Cfg >= 0 && c.Cfg < len(l.Configs) {
						cfg = &l.Configs[c.Cfg]
					}
					loc := model.Locate(cfg, c.API, site, full)
					ref := callRef{life: li, call: c, test: full, site: site}
					if !loc.Standalone {
						ref.file = loc.Path
					}
					switch c.API {
					case scen.APISnapshot, scen.APISSnap:
						var parts []string
						for _, v := range c.Values {
							parts = append(parts, kpretty.Sprint(v.Go()))
						}
						ref.text = strings.Join(parts, "\n")
					default:
						if len(c.Values) > 0 && (c.Values[0].K == "s" || c.Values[0].K == "b") {
							ref.text = string(c.Values[0].S)
						}
					}
					out = append(out, ref)
				case "sub":
					rec(s.Sub, full+"/"+s.Sub.Name, site)
				}
			}
		}
		for _, n := range l.Tests {
			rec(n, n.Name, n.Site)
		}
	}
	return out
}

func standaloneFileOf(w *check.World, c callRef, path string) bool {
	var cfg *scen.ConfigSpec
	l := w.Lifetimes[c.life]
	if c.call.Cfg >= 0 && c.call.Cfg < len(l.Configs) {
		cfg = &l.Configs[c.call.Cfg]
	}
	pat := model.Locate(cfg, c.call.API, c.site, c.test).Path
	for k := 1; k <= 40; k++ {
		if fmt.Sprintf(pat, k) == path {
			return true
		}
	}
	return false
}

func hasLine(s, line string) bool {
	for _, l := range strings.Split(s, "\n") {
		if l == line {
			return true
		}
	}
	return false
}

// violFile: the multi-entry file the violating item lives in.
func violFile(w *check.World, v *check.Violation) string {
	if v.File != "" {
		return v.File
	}
	return ""
}

func init() {
	// K1: a value holding a whole line equal to the escape token /-/-/-/ is
	// indistinguishable from the same value with the terminator --- there.
	triggers["escape-token-line"] = func(w *check.World, v *check.Violation) bool {
		if !strings.HasPrefix(v.Oracle, "differ-") || v.CallID < 0 {
			return false
		}
		// the violating call itself, or the call that recorded the value of the same
		// slot's file for the same test, carries the token
		calls := worldCalls(w)
		var me *callRef
		for i := range calls {
			if calls[i].call.ID == v.CallID && calls[i].life == v.Life {
				me = &calls[i]
			}
		}
		for _, c := range calls {
			if c.call.API != scen.APISnapshot && c.call.API != scen.APIYAML {
				continue
			}
			if !hasLine(c.text, "/-/-/-/") {
				continue
			}
			if c.call.ID == v.CallID || (me != nil && c.file == me.file && c.test == me.test) {
				return true
			}
		}
		return false
	}
	// K2: a body line of the shape [name - n] is taken for an entry header. The
	// unchanged library misbehaves in exactly two situations, and the trigger is
	// those two and nothing wider:
	//  (a) lookup and update compare every line of the file with the id they are
	//      looking for: the body line must name a test that addresses this very
	//      file somewhere in the world (only then can the line equal a looked-up id);
	//  (b) the file-level check of an unused file (fileOfSkippedTests) reads every
	//      line that getTestID accepts as an id: the violating item is the file
	//      itself and the line starts with [Test, [Benchmark or [Fuzz.
	// A header-like line with any other name is harmless on the unchanged tree.
	triggers["header-like-body-line"] = func(w *check.World, v *check.Violation) bool {
		f := violFile(w, v)
		fileLevel := false
		if f == "" && strings.HasPrefix(v.Item, "/") {
			f, fileLevel = v.Item, true
		} else if f != "" && v.Item == f {
			fileLevel = true
		}
		if f == "" {
			return false
		}
		calls := worldCalls(w)
		names := map[string]bool{}
		for _, c := range calls {
			if c.file == f {
				names[c.test] = true
			}
		}
		hit := func(text string) bool {
			for _, m := range headerLineRE.FindAllStringSubmatch(text, -1) {
				if names[m[1]] {
					return true
				}
				if fileLevel && goTestIDRE.MatchString(m[0]) {
					return true
				}
			}
			return false
		}
		for _, c := range calls {
			if c.file == f && hit(c.text) {
				return true
			}
			// a standalone file whose raw value looks like an entry header is read as a
			// multi-entry file by Clean's file-level check
			if c.file == "" && scen.Standalone(c.call.API) && goTestIDRE.MatchString(c.text) && standaloneFileOf(w, c, f) {
				return true
			}
		}
		return false
	}
	// K3: Clean has no way to tell which test owns an unused *standalone* file (the
	// value is stored raw, the test name survives only in the file name, where '/'
	// and '_' are indistinguishable): standalone files of tests that did not run
	// (filtered out by -run, or skipped through snaps.Skip*) are listed obsolete and
	// deleted in clean mode. Multi-entry files are judged by their entry headers and
	// are not covered by this finding.
	triggers["standalone-file-of-test-that-did-not-run"] = func(w *check.World, v *check.Violation) bool {
		if !v.Has("C08") || (v.Oracle != "clean-listed-kept-file" && v.Oracle != "file-missing") {
			return false
		}
		for _, c := range worldCalls(w) {
			if !scen.Standalone(c.call.API) {
				continue
			}
			if standaloneFileOf(w, c, v.Item) {
				return true
			}
		}
		return false
	}
	// F5/K7: under -run the pattern is matched as one regexp against the whole
	// id "name/sub - k" instead of level by level against the test name: an
	// entry of a test that did not run is judged obsolete when the regexp
	// happens to match its id.
	triggers["run-regexp-on-whole-id"] = func(w *check.World, v *check.Violation) bool {
		if !v.Has("C08") || (v.Oracle != "clean-listed-kept-entry" && v.Oracle != "entry-lost") {
			return false
		}
		l := w.Lifetimes[v.Life]
		if l.Run == "" {
			return false
		}
		re, err := regexp.Compile(l.Run)
		if err != nil {
			return false
		}
		return re.MatchString(v.Item)
	}
	// F3: single-line texts that differ only in invalid UTF-8 bytes, colours on.
	triggers["invalid-utf8-colours"] = func(w *check.World, v *check.Violation) bool {
		if !strings.HasPrefix(v.Oracle, "differ-") || v.CallID < 0 {
			return false
		}
		if _, nc := w.Lifetimes[v.Life].Env["NO_COLOR"]; nc {
			return false
		}
		for _, c := range worldCalls(w) {
			if c.call.ID == v.CallID && !utf8.ValidString(c.text) {
				return true
			}
		}
		return false
	}
}

// neutralise returns a copy of the world in which the trigger of the finding is
// removed from every value (the offending lines are replaced by plain text of
// the same length class), or nil if the finding has no textual trigger.
func neutralise(w *check.World, id string) *check.World {
	if id != "K1" && id != "K2" {
		return nil
	}
	c := cloneWorld(w)
	fix := func(s string) string {
		lines := strings.Split(s, "\n")
		for i, l := range lines {
			switch {
			case id == "K1" && l == "/-/-/-/":
				lines[i] = "/-/-/-/ x"
			case id == "K2" && headerLikeRE.MatchString(l) && k2Relevant(w, l):
				lines[i] = "(" + l[1:]
			}
		}
		return strings.Join(lines, "\n")
	}
	for _, l := range c.Lifetimes {
		walk(l.Tests, func(n *scen.TestNode) {
			for _, st := range n.Steps {
				if st.Kind != "call" {
					continue
				}
				for vi := range st.Call.Values {
					v := &st.Call.Values[vi]
					switch v.K {
					case "s", "b", "ds":
						v.S = []byte(fix(string(v.S)))
					case "ss":
						for k := range v.L {
							v.L[k] = fix(v.L[k])
						}
					}
				}
			}
		})
	}
	return c
}

// causal: the violation attributed to a textual known finding must disappear
// when the trigger is neutralised; if the same oracle still fires for the same
// item, it is not that finding.
func causal(env *check.Env, w *check.World, kv *check.Violation, prop string) bool {
	n := neutralise(w, kv.Known)
	if n == nil {
		return true
	}
	out := check.RunWorld(env, n)
	if out.Infra != "" {
		return true
	}
	same := func(v *check.Violation) bool {
		return v != nil && v.Oracle == kv.Oracle && v.Life == kv.Life && v.CallID == kv.CallID && v.Item == kv.Item && v.Has(prop)
	}
	if same(out.Viol) {
		return false
	}
	for _, v := range out.Known {
		if same(v) {
			return false
		}
	}
	for _, v := range out.Cross {
		if same(v) {
			return false
		}
	}
	return true
}

// k2Relevant: the header-like line has the shape the library's own header
// recognition accepts, or names a test of the world (the two situations of the K2
// trigger); any other header-like line stays in place when the trigger is neutralised.
func k2Relevant(w *check.World, line string) bool {
	if goTestIDRE.MatchString(line) {
		return true
	}
	m := headerLineRE.FindStringSubmatch(line)
	if m == nil {
		return false
	}
	for _, c := range worldCalls(w) {
		if c.test == m[1] {
			return true
		}
	}
	return false
}
