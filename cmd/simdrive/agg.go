package main

import (
	"crypto/sha256"
	"encoding/hex"
	"encoding/json"
	"fmt"
	"os"
	"path/filepath"
	"sort"
	"time"

	"verif/internal/check"
)

type agg struct {
	prop, tier  string
	seed        uint64
	worlds      int
	lifetimes   int
	calls       int
	ops         int
	steps       int
	violations  int
	faults      map[string]int
	probes      map[string]int
	outcomes    map[string]int
	sched       map[uint64]bool
	conf        map[uint64]bool
	states      map[string]bool
	nontrivial  map[string]bool
	samples     []*check.World
	configs     map[string]int
	known       map[string]int
	wall        time.Duration
	witnesses   int
	selftest    string
	causal      string
	reconfirmed []string
}

func newAgg(prop, tier string, seed uint64) *agg {
	return &agg{prop: prop, tier: tier, seed: seed, faults: map[string]int{}, probes: map[string]int{}, outcomes: map[string]int{},
		sched: map[uint64]bool{}, conf: map[uint64]bool{}, states: map[string]bool{}, nontrivial: map[string]bool{}, configs: map[string]int{}}
}

func (a *agg) add(w *check.World, o *check.Outcome) {
	a.worlds++
	a.lifetimes += o.Stats.Lifetimes
	a.calls += o.Stats.Calls
	a.ops += o.Stats.Ops
	a.steps += o.Stats.Steps
	a.configs[w.Config]++
	for k, v := range o.Stats.Faults {
		a.faults[k] += v
	}
	for k, v := range o.Stats.Probes {
		a.probes[k] += v
	}
	for k, v := range o.Stats.Outcomes {
		a.outcomes[k] += v
	}
	for _, h := range o.Stats.SchedHashes {
		a.sched[h] = true
	}
	for _, h := range o.Stats.ConfHashes {
		a.conf[h] = true
	}
	for _, h := range o.Stats.StateHashes {
		a.states[h] = true
	}
	if o.Stats.NonTrivial {
		b, _ := json.Marshal(w.Lifetimes)
		h := sha256.New()
		h.Write(b)
		for _, c := range o.Stats.ConfHashes {
			fmt.Fprintf(h, "|%d", c)
		}
		a.nontrivial[hex.EncodeToString(h.Sum(nil))[:20]] = true
		if len(a.samples) < 2 {
			a.samples = append(a.samples, w)
		}
	}
}

var wantedProbes = map[string][]string{
	"C01": {"judged_equal_passed", "files_checked_by_replay_only"},
	"C02": {"judged_differ_failed"},
	"C03": {"ordinal_ge_10", "count_gt_1", "files_checked_structurally", "judged_missing_added"},
	"C04": {"judged_differ_updated", "judged_equal_passed", "files_checked_structurally"},
	"C05": {"judged_missing_failed", "judged_differ_updated", "judged_differ_failed", "clean_deletes", "clean_obsolete_entries"},
	"C06": {"tasks_lifetime", "race_lifetime", "shared_file_two_tasks", "judged_differ_updated", "judged_missing_added"},
	"C07": {"count_gt_1", "clean_ran", "run_filter", "clean_keep_entries_C07", "clean_keep_files_C07"},
	"C08": {"run_filter", "skip_call", "clean_ran", "clean_keep_entries_C08", "clean_keep_files_C08"},
	"C09": {"clean_ran", "clean_deletes", "sort_requested", "clean_obsolete_entries", "clean_obsolete_files", "clean_keep_files_C09"},
	"C10": {"clean_ran", "sort_requested", "clean_rewrote", "files_checked_structurally"},
	"C12": {"tasks_lifetime", "race_lifetime"},
	"C17": {"judged_matcher_failed"},
	"C19": {"count_gt_1", "judged_differ_updated"},
	"C20": {"fault_fired", "clean_ran", "judged_invalid_failed", "tasks_lifetime"},
}

func (a *agg) reachWarnings() []string {
	var out []string
	for _, p := range wantedProbes[a.prop] {
		if a.probes[p] == 0 {
			out = append(out, "probe="+p)
		}
	}
	return out
}

func (a *agg) write(path string, src source) error {
	samples := []any{}
	for _, w := range a.samples {
		samples = append(samples, abbreviate(w))
	}
	if len(samples) == 0 {
		samples = append(samples, "no non-trivial world in this run")
	}
	wall := a.wall.Seconds()
	perHour := 0.0
	if wall > 0 {
		perHour = float64(a.worlds) / wall * 3600
	}
	ev := map[string]any{
		"property_id": a.prop,
		"tier":        a.tier,
		"seed":        a.seed,
		"level":       "exploration",
		"wall_s":      wall,
		"violations":  a.violations,
		"coverage": map[string]any{
			"evaluations":                a.worlds,
			"distinct_nontrivial":        len(a.nontrivial),
			"rule":                       src.describe() + ". A world is one simulated run (a private disk plus 1..4 process lifetimes). Non-trivial: at least one call met an already recorded slot (not merely 'added to an empty directory'). Distinct: SHA-256 of the scenario (programs, values, environments, flags, fault plan) plus the conflict-order hash of every scheduled lifetime.",
			"samples":                    samples,
			"exhaustive":                 src.exhaustive(),
			"lifetimes_real_processes":   a.lifetimes,
			"match_calls":                a.calls,
			"disk_operations_logged":     a.ops,
			"scheduler_steps":            a.steps,
			"simulated_time":             "the library has no clock; logical time = scheduler steps + disk operations above",
			"worlds_per_hour":            int(perHour),
			"distinct_schedules":         len(a.sched),
			"distinct_conflict_orders":   len(a.conf),
			"distinct_final_disk_states": len(a.states),
			"faults_fired":               a.faults,
			"outcomes_observed":          a.outcomes,
			"probes":                     a.probes,
			"generator_configurations":   a.configs,
			"known_findings_met":         a.known,
			"determinism_selftest":       a.selftest,
			"known_finding_causal_tests": a.causal,
			"real_vs_stub": map[string]string{
				"go-snaps packages snaps, match, internal/*, all third-party deps": "real code of /repo's working tree, function bodies untouched",
				"testing runner (-run, -count, t.Run, Cleanup, SkipNow)":           "real in runner lifetimes; SimT stub in scheduled (tasks) lifetimes",
				"process start-up, environment capture, CI detection":              "real: every lifetime is a fresh OS process with a scrubbed environment",
				"kernel file semantics": "real, below a private tmpfs root",
				"os, sync, path/filepath, go/parser, io/ioutil as seen by the module's packages": "shim: yield + log + fault, then the real call (sync.Once rebuilt from the scheduler-aware mutex, sync.Map operations are yield points, RWMutex writer preference modelled by the scheduler)",
				"storage between lifetimes":                  "real files on tmpfs; the driver injects torn tails, flipped bytes, half-written entries, lost terminators, emptied files, hand-made blank lines, symbolic links, deleted files",
				"goroutine scheduling among simulated tests": "simulator, seeded",
				"clock": "none exists in the library",
			},
		},
		"assumptions": []string{
			"seeded search, not enumeration: no counter-example within the budget is evidence, not proof",
			"values, programs and schedules are bounded as described in DESIGN.md section 5.6",
			"the formatted value is computed with the third-party formatters (kr/pretty, tidwall/pretty) the properties are stated relative to",
			"matcher rewriting (C15/C16) is not modelled: calls whose matchers take effect are compared by identity of (input, matchers) only",
		},
	}
	b, err := json.MarshalIndent(ev, "", " ")
	if err != nil {
		return err
	}
	os.MkdirAll(filepath.Dir(path), 0o755)
	return os.WriteFile(path, b, 0o644)
}

// abbreviate renders a world for the evidence file (long values clipped).
func abbreviate(w *check.World) any {
	b, _ := json.Marshal(w)
	var v any
	json.Unmarshal(b, &v)
	var walk func(x any) any
	walk = func(x any) any {
		switch t := x.(type) {
		case map[string]any:
			keys := make([]string, 0, len(t))
			for k := range t {
				keys = append(keys, k)
			}
			sort.Strings(keys)
			for _, k := range keys {
				t[k] = walk(t[k])
			}
			return t
		case []any:
			if len(t) > 12 {
				t = append(t[:12:12], fmt.Sprintf("... %d more", len(t)-12))
			}
			for i := range t {
				t[i] = walk(t[i])
			}
			return t
		case string:
			if len(t) > 120 {
				return t[:120] + fmt.Sprintf("...(%d bytes)", len(t))
			}
			return t
		}
		return x
	}
	return walk(v)
}
