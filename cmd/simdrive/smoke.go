package main

import (
	"encoding/json"
	"fmt"
	"os"
	"strconv"

	"verif/internal/build"
	"verif/internal/check"
	"verif/internal/world"
)

func smoke() {
	// simdrive smoke <prop> <index>: run one world of a family verbosely
	if len(os.Args) < 4 {
		fmt.Println("usage: simdrive smoke <prop> <index>")
		return
	}
	prop := os.Args[2]
	idx, _ := strconv.Atoi(os.Args[3])
	seed := uint64(envInt("VERIF_SEED", 1))
	scratch, _ := scratchDir()
	defer os.RemoveAll(scratch)
	bres, err := build.Build(repoDir, verifDir, scratch, true)
	if err != nil {
		fmt.Println(err)
		return
	}
	env := &check.Env{Bins: &world.Bins{Bin: bres.Bin, RaceBin: bres.RaceBin, TrimBin: bres.TrimBin, Sources: bres.Sources}, Base: scratch, Keep: true, Known: loadKnown().classifyAny}
	src := newSource(prop, seed, "quick")
	w := src.world(idx)
	out := check.RunWorld(env, w)
	if os.Getenv("MIN") != "" && out.Viol != nil {
		w, out.Viol = minimise(env, w, out.Viol, out.Viol.Props[0])
	}
	b, _ := json.MarshalIndent(w, "", " ")
	os.WriteFile("/tmp/world.json", b, 0o644)
	fmt.Println("world written to /tmp/world.json")
	if out.Infra != "" {
		fmt.Println("INFRA:", out.Infra)
	}
	for _, k := range out.Known {
		fmt.Printf("KNOWN %s %v %s: %s\n", k.Known, k.Props, k.Oracle, oneLine(k.Msg))
	}
	if out.Viol != nil {
		fmt.Printf("VIOL %v %s: %s\n", out.Viol.Props, out.Viol.Oracle, out.Viol.Msg)
	}
}

// witness: simdrive witness <prop> <findingID> - search a world that meets the
// listed finding, minimise it and write findings/<ID>.json.
func witness() {
	prop, id := os.Args[2], os.Args[3]
	seed := uint64(envInt("VERIF_SEED", 1))
	scratch, _ := scratchDir()
	defer os.RemoveAll(scratch)
	bres, err := build.Build(repoDir, verifDir, scratch, true)
	if err != nil {
		fmt.Println(err)
		return
	}
	kf := loadKnown()
	env := &check.Env{Bins: &world.Bins{Bin: bres.Bin, RaceBin: bres.RaceBin, TrimBin: bres.TrimBin, Sources: bres.Sources}, Base: scratch, Known: kf.classifyAny}
	src := newSource(prop, seed, "quick")
	for i := 0; i < 20000; i++ {
		w := src.world(i)
		out := check.RunWorld(env, w)
		for _, kv := range out.Known {
			if kv.Known == id && kv.Has(prop) {
				mw, mv := minimise(env, w, kv, prop)
				path := verifDir + "/findings/" + id + ".json"
				writeReplay(path, mw, mv)
				fmt.Printf("wrote %s from world %d: %s\n", path, i, oneLine(mv.Msg))
				return
			}
		}
	}
	fmt.Println("not found")
}
