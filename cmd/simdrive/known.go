package main

import (
	"encoding/json"
	"os"

	"verif/internal/check"
)

// Known findings: /verif/known_findings.json, read-only at run time.
type finding struct {
	ID         string   `json:"id"`
	Status     string   `json:"status"` // known | fixed
	Properties []string `json:"properties"`
	What       string   `json:"what"`
	Trigger    string   `json:"trigger"` // name of a trigger predicate in triggers.go
	Commit     string   `json:"commit,omitempty"`
	Replay     string   `json:"replay,omitempty"`
}

type knownFile struct {
	Findings []finding `json:"findings"`
	byID     map[string]*finding
}

func loadKnown() *knownFile {
	kf := &knownFile{byID: map[string]*finding{}}
	b, err := os.ReadFile(verifDir + "/known_findings.json")
	if err == nil {
		json.Unmarshal(b, kf)
	}
	for i := range kf.Findings {
		kf.byID[kf.Findings[i].ID] = &kf.Findings[i]
	}
	return kf
}

// classify returns the id of the listed finding that explains the violation,
// or "". Only findings with status "known" suppress anything, only for the
// properties they list, and only when the trigger predicate holds for the
// violating item itself.
func (kf *knownFile) classify(prop string, w *check.World, v *check.Violation) string {
	for i := range kf.Findings {
		f := &kf.Findings[i]
		if f.Status != "known" {
			continue
		}
		ok := false
		for _, p := range f.Properties {
			if p == prop {
				ok = true
			}
		}
		if !ok {
			continue
		}
		if pred := triggers[f.Trigger]; pred != nil && pred(w, v) {
			return f.ID
		}
	}
	return ""
}

// classifyAny: the id of any listed known finding whose trigger holds for the
// violating item, whatever the property being checked (used to decide whether a
// world can continue past the violation).
func (kf *knownFile) classifyAny(w *check.World, v *check.Violation) string {
	// findings whose trigger is the exact branch condition of the library (K3, F5) are
	// tried before the ones with a textual trigger (K1, K2), which hold for a whole file
	for pass := 0; pass < 2; pass++ {
		for i := range kf.Findings {
			f := &kf.Findings[i]
			if f.Status != "known" {
				continue
			}
			textual := f.ID == "K1" || f.ID == "K2"
			if textual != (pass == 1) {
				continue
			}
			if pred := triggers[f.Trigger]; pred != nil && pred(w, v) {
				return f.ID
			}
		}
	}
	return ""
}

func (kf *knownFile) lists(id, prop string) bool {
	f := kf.byID[id]
	if f == nil {
		return false
	}
	for _, p := range f.Properties {
		if p == prop {
			return true
		}
	}
	return false
}

var triggers = map[string]func(w *check.World, v *check.Violation) bool{}
