package main

import (
	"fmt"
	"os"
	"strings"
	"sync"

	"verif/internal/build"
	"verif/internal/check"
	"verif/internal/gen"
	"verif/internal/world"
	"verif/sim/scen"
)

// cmdSelftest: determinism of the simulator. Every seed is executed at
// GOMAXPROCS 1, 4 and 16 (fresh processes) and the canonical traces are diffed.
func cmdSelftest() int {
	return selftest(envInt("VERIF_SELFTEST_SEEDS", 200))
}

func selftest(n int) int {
	seed := uint64(envInt("VERIF_SEED", 1))
	scratch, err := scratchDir()
	if err != nil {
		return fatal2("%v", err)
	}
	defer os.RemoveAll(scratch)
	bres, err := build.Build(repoDir, verifDir, scratch, true)
	if err != nil {
		return fatal2("build failed:\n%v", err)
	}
	env := &check.Env{Bins: &world.Bins{Bin: bres.Bin, RaceBin: bres.RaceBin, TrimBin: bres.TrimBin, Sources: bres.Sources}, Base: scratch, Known: loadKnown().classifyAny}
	presets := []*gen.Params{gen.Preset("C06", true, nil), gen.Preset("C20", true, nil), gen.Preset("C10", false, nil), gen.Preset("C19", true, nil), gen.Preset("C12", true, nil), gen.Preset("C03", false, nil), gen.Preset("C08", true, nil), gen.Preset("C01", true, nil)}
	type res struct {
		i     int
		diffs string
	}
	jobs := make(chan int)
	out := make(chan res)
	var wg sync.WaitGroup
	for k := 0; k < 16; k++ {
		wg.Add(1)
		go func() {
			defer wg.Done()
			for i := range jobs {
				var traces []string
				for _, procs := range []string{"1", "4", "16", "4"} {
					w := gen.World(scen.Mix(seed, 777), i, presets[i%len(presets)])
					for _, l := range w.Lifetimes {
						l.Env["GOMAXPROCS"] = procs
					}
					o := check.RunWorld(env, w)
					t := strings.Join(o.Stats.Trace, "\n")
					if k := strings.Index(t, check.CleanFaultMark); k >= 0 {
						// (what Clean had rewritten when an injected fault stopped it depends on Go map
						// order inside the library: compared up to there)
						t = t[:k]
					}
					if o.Infra != "" {
						t += "\nINFRA " + o.Infra
					}
					if o.Viol != nil {
						t += "\nVIOL " + o.Viol.Oracle + " " + o.Viol.Item
					}
					traces = append(traces, t)
				}
				d := ""
				for k := 1; k < len(traces); k++ {
					if traces[k] != traces[0] {
						d = fmt.Sprintf("seed index %d: run %d differs from run 0:\n--- run0\n%s\n--- run%d\n%s", i, k, traces[0], k, traces[k])
						break
					}
				}
				out <- res{i, d}
			}
		}()
	}
	go func() {
		for i := 0; i < n; i++ {
			jobs <- i
		}
		close(jobs)
		wg.Wait()
		close(out)
	}()
	bad := 0
	for r := range out {
		if r.diffs != "" {
			bad++
			if bad <= 3 {
				fmt.Println(r.diffs)
			}
		}
	}
	fmt.Printf("selftest: %d worlds x 4 executions (GOMAXPROCS 1/4/16/4): %d non-deterministic\n", n, bad)
	if bad > 0 {
		return 2
	}
	return 0
}
