package main

import (
	"bytes"
	"encoding/json"

	"verif/internal/check"
	"verif/sim/scen"
)

func cloneWorld(w *check.World) *check.World {
	b, _ := json.Marshal(w)
	var out check.World
	json.Unmarshal(b, &out)
	return &out
}

// minimise shrinks the world while the same oracle of the same property fires.
func minimise(env *check.Env, w *check.World, v *check.Violation, prop string) (*check.World, *check.Violation) {
	best, bestV := cloneWorld(w), v
	budget := 400
	try := func(c *check.World) bool {
		if budget <= 0 {
			return false
		}
		budget--
		out := check.RunWorld(env, c)
		if out.Infra != "" {
			return false
		}
		cand := out.Viol
		if v.Known != "" {
			cand = nil
			for _, kv := range out.Known {
				if kv.Oracle == v.Oracle && kv.Has(prop) && kv.Known == v.Known {
					cand = kv
					break
				}
			}
		}
		if cand == nil || cand.Oracle != v.Oracle || !cand.Has(prop) {
			return false
		}
		best, bestV = c, cand
		return true
	}
	// pin the schedules that were actually taken, so that shrinking other parts replays them
	{
		c := cloneWorld(best)
		out := check.RunWorld(env, c)
		if (out.Viol != nil && out.Viol.Oracle == v.Oracle) || v.Known != "" {
			for li, dec := range out.Stats.Decisions {
				if c.Lifetimes[li].Sched != nil {
					c.Lifetimes[li].Sched.Forced = dec
				}
			}
			try(c)
		}
	}
	progress := true
	for round := 0; round < 4 && progress; round++ {
		progress = false
		// drop lifetimes after the violating one, then others
		for i := len(best.Lifetimes) - 1; i >= 0; i-- {
			if len(best.Lifetimes) <= 1 {
				break
			}
			c := cloneWorld(best)
			c.Lifetimes = append(c.Lifetimes[:i:i], c.Lifetimes[i+1:]...)
			if try(c) {
				progress = true
			}
		}
		// drop pre-files
		for i := len(best.Pre) - 1; i >= 0; i-- {
			c := cloneWorld(best)
			c.Pre = append(c.Pre[:i:i], c.Pre[i+1:]...)
			if try(c) {
				progress = true
			}
		}
		// drop faults
		for li := range best.Lifetimes {
			for i := len(best.Lifetimes[li].Faults) - 1; i >= 0; i-- {
				c := cloneWorld(best)
				f := c.Lifetimes[li].Faults
				c.Lifetimes[li].Faults = append(f[:i:i], f[i+1:]...)
				if try(c) {
					progress = true
				}
			}
		}
		// drop top-level tests (by name, in all lifetimes)
		names := map[string]bool{}
		for _, l := range best.Lifetimes {
			for _, n := range l.Tests {
				names[n.Name] = true
			}
		}
		for name := range names {
			c := cloneWorld(best)
			for _, l := range c.Lifetimes {
				out := l.Tests[:0]
				for _, n := range l.Tests {
					if n.Name != name {
						out = append(out, n)
					}
				}
				l.Tests = out
			}
			if try(c) {
				progress = true
			}
		}
		// drop steps (calls by id in all lifetimes; skips and subs individually)
		ids := map[int]bool{}
		for _, l := range best.Lifetimes {
			walk(l.Tests, func(n *scen.TestNode) {
				for _, s := range n.Steps {
					if s.Kind == "call" {
						ids[s.Call.ID] = true
					}
				}
			})
		}
		for id := range ids {
			c := cloneWorld(best)
			for _, l := range c.Lifetimes {
				walk(l.Tests, func(n *scen.TestNode) {
					out := n.Steps[:0]
					for _, s := range n.Steps {
						if s.Kind == "call" && s.Call.ID == id {
							continue
						}
						out = append(out, s)
					}
					n.Steps = out
				})
			}
			if try(c) {
				progress = true
			}
		}
		for li := range best.Lifetimes {
			var nodes int
			walk(best.Lifetimes[li].Tests, func(n *scen.TestNode) { nodes++ })
			for ni := 0; ni < nodes; ni++ {
				c := cloneWorld(best)
				k := 0
				changed := false
				walk(c.Lifetimes[li].Tests, func(n *scen.TestNode) {
					if k == ni {
						for si := len(n.Steps) - 1; si >= 0; si-- {
							if n.Steps[si].Kind != "call" {
								n.Steps = append(n.Steps[:si:si], n.Steps[si+1:]...)
								changed = true
								break
							}
						}
					}
					k++
				})
				if changed && try(c) {
					progress = true
				}
			}
		}
		// simplify the environment and flags
		for li := range best.Lifetimes {
			l := best.Lifetimes[li]
			if l.Count > 1 {
				c := cloneWorld(best)
				c.Lifetimes[li].Count = 1
				if try(c) {
					progress = true
				}
			}
			if _, ok := l.Env["NO_COLOR"]; ok {
				c := cloneWorld(best)
				delete(c.Lifetimes[li].Env, "NO_COLOR")
				if try(c) {
					progress = true
				}
			}
			if l.PreDelete > 0 || l.PreCorrupt > 0 || l.Shuffle > 0 || l.PreLink > 0 {
				// hand-deleted / damaged files and -shuffle: drop them when they do not matter
				for _, f := range []func(x *scen.Lifetime){
					func(x *scen.Lifetime) { x.PreDelete = 0 },
					func(x *scen.Lifetime) { x.PreCorrupt = 0 },
					func(x *scen.Lifetime) { x.PreLink = 0 },
					func(x *scen.Lifetime) { x.Shuffle = 0 },
				} {
					c := cloneWorld(best)
					f(c.Lifetimes[li])
					if try(c) {
						progress = true
					}
				}
			}
			if l.Race {
				c := cloneWorld(best)
				c.Lifetimes[li].Race = false
				if try(c) {
					progress = true
				}
			}
		}
		// shrink string values
		for li := range best.Lifetimes {
			var calls []*scen.Call
			walk(best.Lifetimes[li].Tests, func(n *scen.TestNode) {
				for _, s := range n.Steps {
					if s.Kind == "call" {
						calls = append(calls, s.Call)
					}
				}
			})
			for ci := range calls {
				for vi := range calls[ci].Values {
					val := calls[ci].Values[vi]
					if (val.K != "s" && val.K != "ds") || len(val.S) <= 1 {
						continue
					}
					for _, cand := range shrinkBytes(val.S) {
						c := cloneWorld(best)
						k := 0
						walk(c.Lifetimes[li].Tests, func(n *scen.TestNode) {
							for _, s := range n.Steps {
								if s.Kind == "call" {
									if k == ci {
										s.Call.Values[vi].S = cand
									}
									k++
								}
							}
						})
						if try(c) {
							progress = true
							break
						}
					}
				}
			}
		}
	}
	return best, bestV
}

func shrinkBytes(b []byte) [][]byte {
	var out [][]byte
	if len(b) > 200 {
		out = append(out, append([]byte{}, b[:8]...))
	}
	// drop one line at a time (the interesting part of a value is usually one line)
	lines := bytes.Split(b, []byte("\n"))
	if len(lines) > 1 && len(lines) <= 12 {
		for i := range lines {
			var rest [][]byte
			rest = append(rest, lines[:i]...)
			rest = append(rest, lines[i+1:]...)
			out = append(out, bytes.Join(rest, []byte("\n")))
		}
	}
	out = append(out, append([]byte{}, b[:len(b)/2]...), append([]byte{}, b[len(b)/2:]...))
	return out
}

func walk(prog []*scen.TestNode, f func(n *scen.TestNode)) {
	var w func(n *scen.TestNode)
	w = func(n *scen.TestNode) {
		f(n)
		for i := range n.Steps {
			if n.Steps[i].Kind == "sub" {
				w(n.Steps[i].Sub)
			}
		}
	}
	for _, n := range prog {
		w(n)
	}
}
