package main

import (
	"encoding/json"
	"fmt"
	"os"

	"verif/internal/build"
	"verif/internal/world"
	"verif/sim/scen"
)

func main() {
	if len(os.Args) > 1 && os.Args[1] == "smoke" {
		smoke()
		return
	}
}

func smoke() {
	scratch, _ := os.MkdirTemp("/dev/shm", "verif-smoke")
	defer os.RemoveAll(scratch)
	res, err := build.Build("/repo", "/verif", scratch, true)
	if err != nil {
		fmt.Println("BUILD:", err)
		os.Exit(2)
	}
	bins := &world.Bins{Bin: res.Bin, RaceBin: res.RaceBin, Sources: res.Sources}
	root, _ := world.NewRoot(scratch, bins)
	mk := func(id int, api, s string) scen.Step {
		return scen.Step{Kind: "call", Call: &scen.Call{ID: id, API: api, Cfg: -1, Values: []scen.Value{scen.Str(s)}}}
	}
	l := &scen.Lifetime{Mode: "runner", Count: 1, Env: map[string]string{}, Clean: &scen.CleanSpec{},
		Tests: []*scen.TestNode{{Name: "TestA", Site: 0, Steps: []scen.Step{mk(1, "snapshot", "hello"), mk(2, "snapshot", "x\n---\ny"),
			{Kind: "sub", Sub: &scen.TestNode{Name: "sub one", Steps: []scen.Step{mk(3, "ssnap", "alone")}}}}}}}
	for i := 0; i < 2; i++ {
		r, err := world.Run(bins, root, scratch, l, i)
		fmt.Println("err:", err, "exit:", r.ExitCode, "wall:", r.Wall)
		b, _ := json.MarshalIndent(r.Report, "", " ")
		fmt.Println(string(b))
		fmt.Println("stdout:", r.Stdout, "stderr:", r.Stderr)
	}
	d, _ := world.ReadDisk(root, nil)
	for k, v := range d {
		fmt.Printf("%s: %q\n", k, trunc(v))
	}
	// tasks mode
	l2 := &scen.Lifetime{Mode: "tasks", Count: 1, Race: true, Env: map[string]string{"UPDATE_SNAPS": "true"},
		Sched: &scen.SchedSpec{Strategy: "uniform", Seed: 7},
		Tests: []*scen.TestNode{
			{Name: "TestA", Site: 0, Steps: []scen.Step{mk(1, "snapshot", "hello2"), mk(2, "snapshot", "zz")}},
			{Name: "TestB", Site: 0, Steps: []scen.Step{mk(3, "snapshot", "b1"), mk(4, "snapshot", "b2")}},
			{Name: "TestC", Site: 0, Steps: []scen.Step{mk(5, "snapshot", "c1"), mk(6, "sjson", `{"a":1}`)}},
		}}
	r, err := world.Run(bins, root, scratch, l2, 3)
	fmt.Println("err:", err, "exit:", r.ExitCode, "wall:", r.Wall)
	r.Report.Ops = nil
	b, _ := json.Marshal(r.Report)
	fmt.Println(string(b))
	fmt.Println("stdout:", r.Stdout, "stderr:", r.Stderr, "races:", len(r.Races), len(r.HarnessRaces))
	d, _ = world.ReadDisk(root, nil)
	for k, v := range d {
		fmt.Printf("%s: %q\n", k, trunc(v))
	}
}

func trunc(b []byte) []byte {
	if len(b) > 300 {
		return b[:300]
	}
	return b
}
