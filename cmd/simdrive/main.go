// simdrive is the driver of the deterministic simulation: it builds the world
// binaries from /repo's working tree, draws worlds from one seed, runs them on
// all cores, evaluates the oracles, minimises and writes replay files and the
// evidence file.
package main

import (
	"encoding/json"
	"fmt"
	"os"
	"path/filepath"
	"runtime"
	"sort"
	"strconv"
	"strings"
	"sync"
	"time"

	"verif/internal/build"
	"verif/internal/check"
	"verif/internal/gen"
	"verif/internal/world"
	"verif/sim/scen"
)

// verifDir is /verif; VERIF_DIR overrides it for background experiments that run from a
// snapshot of /verif (never used by the commands registered in MANIFEST.json).
var verifDir = func() string {
	if v := os.Getenv("VERIF_DIR"); v != "" {
		return v
	}
	return "/verif"
}()

// repoDir is /repo; VERIF_REPO overrides it for experiments on scratch
// worktrees (never used by the commands registered in MANIFEST.json).
var repoDir = func() string {
	if v := os.Getenv("VERIF_REPO"); v != "" {
		return v
	}
	return "/repo"
}()

func main() {
	scen.NominalDir = repoDir + "/snaps"
	if len(os.Args) < 2 {
		usage()
	}
	switch os.Args[1] {
	case "check":
		if len(os.Args) < 4 {
			usage()
		}
		os.Exit(cmdCheck(os.Args[2], os.Args[3]))
	case "replay":
		if len(os.Args) < 3 {
			usage()
		}
		os.Exit(cmdReplay(os.Args[2]))
	case "selftest":
		os.Exit(cmdSelftest())
	case "smoke":
		smoke()
	case "witness":
		witness()
	default:
		usage()
	}
}

func usage() {
	fmt.Fprintln(os.Stderr, "usage: simdrive check <property> quick|thorough | replay <file> | selftest")
	os.Exit(2)
}

func envInt(name string, def int) int {
	if v := os.Getenv(name); v != "" {
		if n, err := strconv.Atoi(v); err == nil {
			return n
		}
	}
	return def
}

func scratchDir() (string, error) {
	base := "/dev/shm"
	if fi, err := os.Stat(base); err != nil || !fi.IsDir() {
		base = os.TempDir()
	}
	return os.MkdirTemp(base, "verif-sim-")
}

func fatal2(f string, a ...any) int {
	fmt.Printf("INFRA-ERROR: "+f+"\n", a...)
	return 2
}

func needRace(prop string) bool {
	switch prop {
	case "C06", "C12", "C20", "C03", "C19", "C17":
		return true
	}
	return false
}

type budget struct {
	worlds int
	wall   time.Duration
}

func budgetOf(prop, tier string) budget {
	// the world count decides (so that a batch is reproducible); the wall limit is a safety net
	q := budget{12000, 150 * time.Second}
	t := budget{240000, 20 * time.Minute}
	switch prop {
	case "C03", "C19", "C20":
		q.worlds, t.worlds = 8000, 160000
	case "C10":
		q.worlds, t.worlds = 6000, 120000 // every second world is executed twice (order independence)
	}
	if tier == "thorough" {
		return t
	}
	return q
}

type job struct {
	idx int
	w   *check.World
}

type result struct {
	idx int
	w   *check.World
	out *check.Outcome
}

func cmdCheck(prop, tier string) int {
	start := time.Now()
	seed := uint64(envInt("VERIF_SEED", 1))
	workers := envInt("VERIF_WORKERS", runtime.NumCPU())
	if tier != "quick" && tier != "thorough" {
		usage()
	}
	scratch, err := scratchDir()
	if err != nil {
		return fatal2("scratch dir: %v", err)
	}
	defer os.RemoveAll(scratch)
	bres, err := build.Build(repoDir, verifDir, scratch, needRace(prop))
	if err != nil {
		return fatal2("build from %s failed:\n%v", repoDir, err)
	}
	kf := loadKnown()
	env := &check.Env{Bins: &world.Bins{Bin: bres.Bin, RaceBin: bres.RaceBin, TrimBin: bres.TrimBin, Sources: bres.Sources}, Base: scratch, Known: kf.classifyAny, Prop: prop}
	fmt.Printf("simdrive: property %s tier %s seed %d: built world binaries from %s in %.1fs (%d import rewrites)\n", prop, tier, seed, repoDir, time.Since(start).Seconds(), bres.Rewrites)

	agg := newAgg(prop, tier, seed)
	if tier == "thorough" && (prop == "C06" || prop == "C20") {
		// determinism of the simulator is re-established before a long run (DESIGN.md 5.8)
		if rc := selftest(120); rc != 0 {
			return fatal2("determinism self-test failed")
		}
		agg.selftest = "120 worlds x 4 executions at GOMAXPROCS 1/4/16/4: identical traces"
	}
	bud := budgetOf(prop, tier)
	_ = agg
	if v := envInt("VERIF_WORLDS", 0); v > 0 {
		bud.worlds = v
	}
	src := newSource(prop, seed, tier)
	if src == nil {
		return fatal2("no scenario family for property %s", prop)
	}
	jobs := make(chan job, workers*2)
	results := make(chan result, workers*2)
	var wg sync.WaitGroup
	for i := 0; i < workers; i++ {
		wg.Add(1)
		go func() {
			defer wg.Done()
			for j := range jobs {
				results <- result{j.idx, j.w, check.RunWorld(env, j.w)}
			}
		}()
	}
	deadline := time.Now().Add(bud.wall) // (counted from the end of the build: a loaded machine must not eat the batch)
	stop := make(chan struct{})
	go func() {
		defer close(jobs)
		for i := 0; i < bud.worlds; i++ {
			w := src.world(i)
			if w == nil {
				return
			}
			if !src.exhaustive() && time.Now().After(deadline) {
				return
			}
			select {
			case jobs <- job{i, w}:
			case <-stop:
				return
			}
		}
	}()
	go func() { wg.Wait(); close(results) }()

	var mine []result  // violations of this property
	var cross []result // violations of other properties only
	var infra []string
	stopped := false
	knownHit := map[string]int{}
	causalTests, causalOK := 0, 0
	for r := range results {
		agg.add(r.w, r.out)
		for _, kv := range r.out.Known {
			if !kv.Has(prop) {
				continue
			}
			if kf.lists(kv.Known, prop) {
				// causal test for the findings with a textual trigger (bounded per run)
				if (kv.Known == "K1" || kv.Known == "K2") && causalTests < 60 {
					causalTests++
					if !causal(env, r.w, kv, prop) {
						kv.Msg += "\n(the trigger of known finding " + kv.Known + " is present, but the violation persists when the trigger is neutralised: it is not that finding)"
						mine = append(mine, result{r.idx, r.w, &check.Outcome{Viol: kv}})
						continue
					}
					causalOK++
				}
				knownHit[kv.Known]++
			} else {
				// the trigger of a listed finding holds, but the finding is not listed for
				// this property: it is reported
				mine = append(mine, result{r.idx, r.w, &check.Outcome{Viol: kv}})
			}
		}
		if r.out.Infra != "" {
			infra = append(infra, fmt.Sprintf("world %d: %s", r.idx, r.out.Infra))
			if len(infra) >= 3 && !stopped {
				stopped = true
				close(stop)
			}
			continue
		}
		for _, cv := range r.out.Cross {
			cross = append(cross, result{r.idx, r.w, &check.Outcome{Viol: cv}})
			break
		}
		if v := r.out.Viol; v != nil {
			if v.Has(prop) {
				mine = append(mine, r)
				if len(mine) >= 40 && !stopped {
					stopped = true
					close(stop)
				}
			} else {
				cross = append(cross, r)
			}
		}
	}
	if len(infra) > 0 {
		for _, s := range infra {
			fmt.Println("INFRA-ERROR:", s)
		}
		return 2
	}
	sort.Slice(mine, func(i, j int) bool { return mine[i].idx < mine[j].idx })
	crossSeen := map[string]bool{}
	for _, r := range cross {
		k := strings.Join(r.out.Viol.Props, ",") + " " + r.out.Viol.Oracle
		if !crossSeen[k] {
			crossSeen[k] = true
			fmt.Printf("CROSS-FINDING property=%s oracle=%s world=%d: %s\n", strings.Join(r.out.Viol.Props, ","), r.out.Viol.Oracle, r.idx, oneLine(r.out.Viol.Msg))
		}
	}
	exit := 0
	reported := map[string]bool{}
	os.MkdirAll(filepath.Join(verifDir, "out", "replays"), 0o755)
	for _, r := range mine {
		v := r.out.Viol
		sig := v.Oracle
		if reported[sig] {
			continue
		}
		reported[sig] = true
		// minimise, replay once more, report
		mw, mv := minimise(env, r.w, v, prop)
		path := filepath.Join(verifDir, "out", "replays", fmt.Sprintf("%s-seed%d-w%d-%s.json", prop, seed, r.idx, v.Oracle))
		writeReplay(path, mw, mv)
		fmt.Printf("VIOLATION property=%s replay=%s\n", prop, path)
		fmt.Printf("  oracle=%s world=%d config=%s lifetimes=%d\n  %s\n", mv.Oracle, r.idx, r.w.Config, len(mw.Lifetimes), indent(mv.Msg))
		agg.violations++
		exit = 1
	}
	// committed witnesses of the listed findings: a fixed one must stay fixed, a known one is re-confirmed
	for i := range kf.Findings {
		f := &kf.Findings[i]
		if f.Replay == "" || !kf.lists(f.ID, prop) {
			continue
		}
		rf, err := loadReplay(filepath.Join(verifDir, f.Replay))
		if err != nil {
			return fatal2("finding %s: %v", f.ID, err)
		}
		o := check.RunWorld(env, rf.World)
		if o.Infra != "" {
			return fatal2("finding %s witness: %s", f.ID, o.Infra)
		}
		agg.witnesses++
		switch f.Status {
		case "fixed":
			bad := o.Viol
			if bad == nil {
				for _, kv := range o.Known {
					if kv.Oracle == rf.Violation.Oracle {
						bad = nil // a different, listed finding on the same witness: not this one
					}
				}
			}
			if bad != nil && bad.Has(prop) {
				fmt.Printf("VIOLATION property=%s replay=%s\n  the repaired finding %s is back: %s\n", prop, filepath.Join(verifDir, f.Replay), f.ID, indent(bad.Msg))
				agg.violations++
				exit = 1
			}
		case "known":
			found := false
			for _, kv := range o.Known {
				if kv.Known == f.ID {
					found = true
				}
			}
			if found {
				knownHit[f.ID]++
				agg.reconfirmed = append(agg.reconfirmed, f.ID)
			} else {
				fmt.Printf("NOTE: the committed witness of known finding %s no longer reproduces on this tree\n", f.ID)
			}
		}
	}
	for _, id := range sortedKeysInt(knownHit) {
		f := kf.byID[id]
		fmt.Printf("KNOWN-FINDING: property=%s %s: %s (met in %d worlds)\n", prop, f.ID, f.What, knownHit[id])
	}
	agg.known = knownHit
	agg.causal = fmt.Sprintf("%d attributions to K1/K2 re-executed with the trigger neutralised, %d disappeared as they must", causalTests, causalOK)
	agg.wall = time.Since(start)
	if err := agg.write(filepath.Join(verifDir, "evidence", prop+".json"), src); err != nil {
		return fatal2("evidence: %v", err)
	}
	fmt.Printf("simdrive: %s %s: %d worlds, %d lifetimes, %d calls, %d scheduler steps in %.1fs; %d violations of %s (distinct oracles; %d violating worlds), %d known-finding hits, %d cross findings\n",
		prop, tier, agg.worlds, agg.lifetimes, agg.calls, agg.steps, agg.wall.Seconds(), agg.violations, prop, len(mine), sumInts(knownHit), len(cross))
	for _, w := range agg.reachWarnings() {
		fmt.Println("REACH-WARNING", w)
	}
	return exit
}

func oneLine(s string) string {
	s = strings.ReplaceAll(s, "\n", " | ")
	if len(s) > 400 {
		s = s[:400] + "..."
	}
	return s
}

func indent(s string) string { return strings.ReplaceAll(s, "\n", "\n  ") }

func sortedKeysInt(m map[string]int) []string {
	out := make([]string, 0, len(m))
	for k := range m {
		out = append(out, k)
	}
	sort.Strings(out)
	return out
}

func sumInts(m map[string]int) int {
	t := 0
	for _, v := range m {
		t += v
	}
	return t
}

// ---------------------------------------------------------------- sources

type source interface {
	world(i int) *check.World
	exhaustive() bool
	describe() string
}

type presetSource struct {
	prop string
	seed uint64
	free *gen.Params
	adv  *gen.Params
	// thorough tier: every third world is drawn with deeper bounds
	largeFree *gen.Params
	largeAdv  *gen.Params
}

func (s *presetSource) world(i int) *check.World {
	p := s.free
	if i%5 >= 3 {
		p = s.adv
	}
	if s.largeFree != nil && i%3 == 2 {
		p = s.largeFree
		if i%5 >= 3 {
			p = s.largeAdv
		}
	}
	w := gen.World(scen.Mix(s.seed, hashProp(s.prop)), i, p)
	if s.prop == "C12" {
		w.Differential = "fresh-config"
		if i%3 == 2 {
			w.Differential = "warm-up"
		}
	}
	if s.prop == "C10" && i%2 == 0 {
		w.Differential = "record-order"
	}
	return w
}
func (s *presetSource) exhaustive() bool { return false }
func (s *presetSource) describe() string {
	d := "worlds drawn by internal/gen from splitmix(VERIF_SEED, property, index): 3 of 5 with the trigger-free generator configuration, 2 of 5 adversarial (known-finding triggers allowed)"
	if s.largeFree != nil {
		d += "; every third world with deeper bounds (up to 12 tests, twice the calls per test, one more nesting level, 5 Configs, -count up to 5, more lifetimes)"
	}
	return d
}

func hashProp(p string) uint64 {
	h := uint64(1469598103934665603)
	for i := 0; i < len(p); i++ {
		h = (h ^ uint64(p[i])) * 1099511628211
	}
	return h
}

// tableSource: every cell of the C05 mode table, then (thorough) random histories.
type tableSource struct {
	seed  uint64
	extra *presetSource
}

func (s *tableSource) world(i int) *check.World {
	if i < gen.TableSize() {
		return gen.TableWorld(s.seed, i)
	}
	if s.extra == nil {
		return nil
	}
	return s.extra.world(i - gen.TableSize())
}
func (s *tableSource) exhaustive() bool { return false }
func (s *tableSource) describe() string {
	d := fmt.Sprintf("all %d cells of the mode table CI x Update option x UPDATE_SNAPS x entry point x entry state x Clean x obsolete items, one two-lifetime world each (the cell runs as a fresh process with exactly that environment)", gen.TableSize())
	d += " (exhaustive: every cell is executed in both tiers); followed by random histories drawn under all environments and Update options"
	return d
}

func newSource(prop string, seed uint64, tier string) source {
	switch prop {
	case "C05":
		// the whole table first, then random histories under all environments and Update options
		ps := &presetSource{prop: prop, seed: seed, free: gen.Preset(prop, false, nil), adv: gen.Preset(prop, true, nil)}
		if tier == "thorough" {
			ps.largeFree, ps.largeAdv = gen.Enlarge(ps.free), gen.Enlarge(ps.adv)
		}
		return &tableSource{seed: seed, extra: ps}
	case "C01", "C02", "C03", "C04", "C06", "C07", "C08", "C09", "C10", "C17", "C19", "C20", "C12":
		ps := &presetSource{prop: prop, seed: seed, free: gen.Preset(prop, false, nil), adv: gen.Preset(prop, true, nil)}
		if tier == "thorough" {
			ps.largeFree, ps.largeAdv = gen.Enlarge(ps.free), gen.Enlarge(ps.adv)
		}
		return ps
	}
	return nil
}

// ---------------------------------------------------------------- replay files

type replayFile struct {
	Property  string           `json:"property"`
	Violation *check.Violation `json:"violation"`
	World     *check.World     `json:"world"`
	Note      string           `json:"note"`
}

func writeReplay(path string, w *check.World, v *check.Violation) {
	rf := replayFile{Property: w.Prop, Violation: v, World: w, Note: "replay with: ./bin/check replay <this file>; byte values are base64"}
	b, _ := json.MarshalIndent(rf, "", " ")
	os.WriteFile(path, b, 0o644)
}

func loadReplay(path string) (*replayFile, error) {
	b, err := os.ReadFile(path)
	if err != nil {
		return nil, err
	}
	var rf replayFile
	if err := json.Unmarshal(b, &rf); err != nil {
		return nil, fmt.Errorf("bad replay file %s: %v", path, err)
	}
	if rf.Violation == nil {
		rf.Violation = &check.Violation{}
	}
	return &rf, nil
}

func cmdReplay(path string) int {
	rfp, err := loadReplay(path)
	if err != nil {
		return fatal2("%v", err)
	}
	rf := *rfp
	scratch, err := scratchDir()
	if err != nil {
		return fatal2("%v", err)
	}
	if os.Getenv("VERIF_KEEP") == "" {
		defer os.RemoveAll(scratch)
	} else {
		fmt.Println("scratch kept:", scratch)
	}
	race := false
	for _, l := range rf.World.Lifetimes {
		if l.Race {
			race = true
		}
	}
	bres, err := build.Build(repoDir, verifDir, scratch, race)
	if err != nil {
		return fatal2("build failed:\n%v", err)
	}
	kf := loadKnown()
	env := &check.Env{Bins: &world.Bins{Bin: bres.Bin, RaceBin: bres.RaceBin, TrimBin: bres.TrimBin, Sources: bres.Sources}, Base: scratch, Known: kf.classifyAny}
	env.Keep = os.Getenv("VERIF_KEEP") != "" // debugging: keep the world root below the scratch directory
	out := check.RunWorld(env, rf.World)
	if out.Infra != "" {
		return fatal2("%s", out.Infra)
	}
	if os.Getenv("VERIF_TRACE") != "" {
		for _, t := range out.Stats.Trace {
			fmt.Println("TRACE", t)
		}
		for _, cv := range out.Cross {
			fmt.Printf("CROSS %v %s: %s\n", cv.Props, cv.Oracle, oneLine(cv.Msg))
		}
		for _, cv := range out.Known {
			fmt.Printf("KNOWN(%s) %v %s: %s\n", cv.Known, cv.Props, cv.Oracle, oneLine(cv.Msg))
		}
		for k, v := range out.Stats.Probes {
			fmt.Printf("PROBE %s=%d\n", k, v)
		}
	}
	for _, kv := range out.Known {
		if kv.Has(rf.Property) && kf.lists(kv.Known, rf.Property) {
			fmt.Printf("KNOWN-FINDING: property=%s %s: %s\n  %s\n", rf.Property, kv.Known, kf.byID[kv.Known].What, indent(kv.Msg))
		} else if kv.Has(rf.Property) && out.Viol == nil {
			out.Viol = kv
		}
	}
	if out.Viol == nil {
		fmt.Printf("replay %s: no unlisted violation on the current tree\n", path)
		return 0
	}
	fmt.Printf("replay: oracle=%s props=%v\n  %s\n", out.Viol.Oracle, out.Viol.Props, indent(out.Viol.Msg))
	if rf.Violation != nil && out.Viol.Oracle != rf.Violation.Oracle {
		fmt.Printf("replay: NOTE a different oracle fired than recorded (%s)\n", rf.Violation.Oracle)
	}
	if out.Viol.Has(rf.Property) {
		fmt.Printf("VIOLATION property=%s replay=%s\n", rf.Property, path)
		return 1
	}
	fmt.Printf("CROSS-FINDING property=%s\n", strings.Join(out.Viol.Props, ","))
	return 0
}
