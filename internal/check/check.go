// Package check executes worlds and evaluates the oracles.
package check

import (
	"encoding/json"
	"fmt"
	"os"
	"path/filepath"
	"regexp"
	"sort"
	"strconv"
	"strings"

	"verif/internal/model"
	"verif/internal/world"
	"verif/sim/scen"
)

type PreFile struct {
	Path  string `json:"path"`
	Data  []byte `json:"data,omitempty"`
	IsDir bool   `json:"dir,omitempty"`
	Link  string `json:"link,omitempty"` // symbolic link to this (relative) target
}

// World is one run of the simulator: a disk and a sequence of lifetimes.
type World struct {
	Prop      string           `json:"prop"`
	Family    string           `json:"family"`
	Seed      uint64           `json:"seed"`
	Index     int              `json:"index"`
	Config    string           `json:"config"` // trigger-free | adversarial
	Pre       []PreFile        `json:"pre,omitempty"`
	Lifetimes []*scen.Lifetime `json:"lifetimes"`
	Note      string           `json:"note,omitempty"`
	// Differential "fresh-config": the world is executed a second time with a
	// fresh Config per call; every observable must be the same (C12).
	Differential string `json:"differential,omitempty"`
}

type Violation struct {
	Props  []string `json:"props"`
	Oracle string   `json:"oracle"`
	Msg    string   `json:"msg"`
	Life   int      `json:"life"`
	CallID int      `json:"call"`
	Item   string   `json:"item,omitempty"`
	File   string   `json:"file,omitempty"` // multi-entry file the violating item lives in
	Known  string   `json:"known,omitempty"`
}

func (v *Violation) Has(prop string) bool {
	for _, p := range v.Props {
		if p == prop {
			return true
		}
	}
	return false
}

type Stats struct {
	Lifetimes   int
	Calls       int
	Ops         int
	Steps       int
	Faults      map[string]int
	Probes      map[string]int
	SchedHashes []uint64
	ConfHashes  []uint64
	StateHashes []string
	NonTrivial  bool
	Outcomes    map[string]int
	Sorted      map[string][]byte // bytes of every file right after a Clean with Sort handled it
	Decisions   map[int][]int     // per lifetime index: the schedule actually taken
	Trace       []string          // canonical event trace (determinism self-test)
}

type Outcome struct {
	Viol  *Violation   // first violation that is not a listed known finding
	Known []*Violation // violations attributed to a known finding (Known = its id); the world continued past them
	Cross []*Violation // violations of other properties than Env.Prop; the world continued past them
	Infra string
	Stats Stats
}

type Env struct {
	Bins *world.Bins
	Base string // scratch base directory (tmpfs)
	Keep bool
	// Known returns the id of the listed known finding whose trigger holds
	// for the violating item, or "".
	Known func(w *World, v *Violation) string
	// Prop: the property being checked. A violation that does not name it is kept
	// as a cross finding, the file concerned stops being predicted and the world
	// goes on, so that it cannot mask a violation of Prop later in the same world.
	Prop string
}

// hit records a violation; true means the world stops here.
func (st *wstate) hit(v *Violation) bool {
	if st.env.Known != nil {
		if id := st.env.Known(st.w, v); id != "" {
			v.Known = id
			st.out.Known = append(st.out.Known, v)
			return false
		}
	}
	if st.env.Prop != "" && !v.Has(st.env.Prop) {
		st.out.Cross = append(st.out.Cross, v)
		return false
	}
	st.out.Viol = v
	return true
}

func viol(oracle string, life, call int, item string, props []string, f string, a ...any) *Violation {
	return &Violation{Props: props, Oracle: oracle, Msg: fmt.Sprintf(f, a...), Life: life, CallID: call, Item: item}
}

func isHarnessSource(p string) bool {
	return strings.HasPrefix(p, scen.NominalDir+"/zz_world_") && strings.HasSuffix(p, ".go")
}

func skipDisk(p string) bool {
	return isHarnessSource(p) || p == LinkStore || strings.HasPrefix(p, LinkStore+"/")
}

// RunWorld executes the world and returns the first violation, if any.
var textTrigger = regexp.MustCompile(`(?m)^(\[(Test|Benchmark|Fuzz).* - \d+\]|/-/-/-/)$`)

// hasTextTrigger: some value of the world carries the textual trigger of a known
// finding (K1, K2). Such a world is judged by the model-based oracles only, whose
// violations are attributed per item; the differential oracles compare whole traces
// and would only rediscover the finding through another door.
func hasTextTrigger(w *World) bool {
	found := false
	var walk func(n *scen.TestNode)
	walk = func(n *scen.TestNode) {
		for _, st := range n.Steps {
			switch st.Kind {
			case "call":
				for _, v := range st.Call.Values {
					if textTrigger.Match(v.S) {
						found = true
					}
					for _, l := range v.L {
						if textTrigger.MatchString(l) {
							found = true
						}
					}
				}
			case "sub":
				walk(st.Sub)
			}
		}
	}
	for _, l := range w.Lifetimes {
		for _, n := range l.Tests {
			walk(n)
		}
	}
	return found
}

func RunWorld(env *Env, w *World) *Outcome {
	out := runWorld(env, w)
	if w.Differential != "" && hasTextTrigger(w) {
		return out
	}
	if out.Infra != "" && strings.Contains(out.Infra, "timed out") && env.Bins.TimeoutSec < 200 {
		// a lifetime normally takes milliseconds; a time-out without a goroutine provably
		// parked on a go-snaps lock is a loaded machine: run the world once more, patiently
		b2 := *env.Bins
		b2.TimeoutSec = 300
		e2 := *env
		e2.Bins = &b2
		out = runWorld(&e2, w)
	}
	if w.Differential == "record-order" && out.Infra == "" && out.Viol == nil && len(out.Stats.Sorted) > 0 {
		// the same history, recorded in another order: what Clean's sort leaves must not depend on it
		b, _ := json.Marshal(w)
		var w2 World
		json.Unmarshal(b, &w2)
		l := w2.Lifetimes[0]
		if l.Mode == "tasks" && l.Sched != nil {
			l.Sched.Seed ^= 0x5bd1e995
			l.Sched.Forced = nil
		} else {
			for i, j := 0, len(l.Tests)-1; i < j; i, j = i+1, j-1 {
				l.Tests[i], l.Tests[j] = l.Tests[j], l.Tests[i]
			}
		}
		out2 := runWorld(env, &w2)
		if out2.Infra != "" {
			out.Infra = out2.Infra
			return out
		}
		if out2.Viol == nil {
			for _, p := range model.SortedKeys(out.Stats.Sorted) {
				a, c := out.Stats.Sorted[p], out2.Stats.Sorted[p]
				if c != nil && !sameEntries(a, c) && !naturalTies(a) {
					v := viol("sort-depends-on-initial-order", len(w.Lifetimes)-1, -1, p, []string{"C10"}, "after Clean with Sort, %s differs between two worlds that hold the same entries recorded in a different order:\n%q\nvs\n%q", p, clip2(string(a)), clip2(string(c)))
					v.File = p
					if st := (&wstate{env: env, w: w, out: out}); st.hit(v) {
						break
					}
				}
			}
		}
		return out
	}
	if last := w.Lifetimes[len(w.Lifetimes)-1]; w.Differential == "warm-up" && last.Mode == "tasks" && len(last.Faults) > 0 {
		// the extra test changes the schedule the seed draws; with an injected fault that
		// tears a file two concurrent tests share, which of them meets the damage is the
		// schedule's choice, not cross-talk: such a world is judged by the model only
		return out
	}
	if w.Differential == "warm-up" && out.Infra == "" {
		// the same world, but in the last lifetime an extra test that runs first uses every
		// Config (and the package-level functions) in reverse order: the calls of the
		// world must not notice (Configs are independent of each other, nothing is cached
		// across them)
		b, _ := json.Marshal(w)
		var w2 World
		json.Unmarshal(b, &w2)
		l := w2.Lifetimes[len(w2.Lifetimes)-1]
		l.Shuffle = 0 // the warm-up test must run first
		warm := &scen.TestNode{Name: "Test0Warm", Site: 0}
		id := 900000
		for ci := len(l.Configs) - 1; ci >= -1; ci-- {
			for _, api := range []string{scen.APIJSON, scen.APISJSON, scen.APISnapshot} {
				if api == scen.APISJSON && ci >= 0 && l.Configs[ci].Filename != nil {
					continue // a custom standalone file name belongs to one test only (DESIGN.md 12)
				}
				id++
				val := scen.Str(`{"b":1,"a":[1,2,3],"c":{"z":1,"y":2}}`)
				warm.Steps = append(warm.Steps, scen.Step{Kind: "call", Call: &scen.Call{ID: id, API: api, Cfg: ci, Values: []scen.Value{val}}})
			}
		}
		l.Tests = append([]*scen.TestNode{warm}, l.Tests...)
		out2 := runWorld(env, &w2)
		if out2.Infra != "" {
			out.Infra = out2.Infra
			return out
		}
		sig := func(t []string) []string {
			var o []string
			for _, x := range t {
				if strings.Contains(x, " call ") && !strings.Contains(x, "Test0Warm") {
					o = append(o, x)
				}
			}
			return o
		}
		t1, t2 := sig(out.Stats.Trace), sig(out2.Stats.Trace)
		for k := 0; k < len(t1) && k < len(t2); k++ {
			if t1[k] != t2[k] {
				v := viol("config-cross-talk", len(w.Lifetimes)-1, -1, "", []string{"C12"}, "a call behaves differently after an unrelated test used the Configs of this world (and the package-level functions) in another order first:\n  without: %s\n  with:    %s", clip2(t1[k]), clip2(t2[k]))
				if out.Viol == nil || !out.Viol.Has("C12") {
					out.Viol = v
				}
				break
			}
		}
		return out
	}
	if w.Differential != "fresh-config" || out.Infra != "" {
		return out
	}
	b, _ := json.Marshal(w)
	var w2 World
	json.Unmarshal(b, &w2)
	for _, l := range w2.Lifetimes {
		l.FreshCfg = true
	}
	out2 := runWorld(env, &w2)
	if out2.Infra != "" {
		out.Infra = out2.Infra
		return out
	}
	// outcomes and disk states are compared; the schedule hash is not (it covers the
	// names of temporary files an implementation may create)
	noSched := func(t []string) []string {
		var o []string
		for _, x := range t {
			if !strings.Contains(x, " sched ") {
				o = append(o, x)
			}
		}
		return o
	}
	t1, t2 := noSched(out.Stats.Trace), noSched(out2.Stats.Trace)
	if out.Viol != nil {
		t1 = append(t1, "VIOL "+out.Viol.Oracle+" "+out.Viol.Item)
	}
	if out2.Viol != nil {
		t2 = append(t2, "VIOL "+out2.Viol.Oracle+" "+out2.Viol.Item)
	}
	for k := 0; k < len(t1) || k < len(t2); k++ {
		a, c := "<end>", "<end>"
		if k < len(t1) {
			a = t1[k]
		}
		if k < len(t2) {
			c = t2[k]
		}
		if a != c {
			v := viol("config-history-dependence", 0, -1, "", []string{"C12"}, "the same calls behave differently through shared Configs than through a fresh Config per call:\n  shared: %s\n  fresh:  %s", clip2(a), clip2(c))
			if out.Viol == nil || !out.Viol.Has("C12") {
				out.Viol = v
			}
			break
		}
	}
	return out
}

// sameEntries: the two files hold the same entries with the same bodies in the same
// order (blank lines between entries do not count: a file that needed no rewrite keeps
// the ones a user put there).
func sameEntries(a, b []byte) bool {
	ea, erra := ParseSnap(a)
	eb, errb := ParseSnap(b)
	if erra != nil || errb != nil {
		return string(a) == string(b)
	}
	if len(ea) != len(eb) {
		return false
	}
	for i := range ea {
		if ea[i].ID != eb[i].ID || ea[i].Body != eb[i].Body {
			return false
		}
	}
	return true
}

func clip2(s string) string {
	if len(s) > 300 {
		return s[:300] + "..."
	}
	return s
}

func runWorld(env *Env, w *World) *Outcome {
	out := &Outcome{Stats: Stats{Faults: map[string]int{}, Probes: map[string]int{}, Outcomes: map[string]int{}}}
	root, err := world.NewRoot(env.Base, env.Bins)
	if err != nil {
		out.Infra = err.Error()
		return out
	}
	side, err := os.MkdirTemp(env.Base, "s")
	if err != nil {
		out.Infra = err.Error()
		return out
	}
	if !env.Keep {
		defer os.RemoveAll(root)
		defer os.RemoveAll(side)
	}
	d := model.NewDisk()
	for _, pf := range w.Pre {
		dst := root + pf.Path
		if pf.IsDir && pf.Link == "" {
			os.MkdirAll(dst, 0o755)
			d.Dirs[pf.Path] = true
			continue
		}
		os.MkdirAll(filepath.Dir(dst), 0o755)
		if pf.Link != "" {
			if pf.IsDir {
				// a link to a directory: the directory it points to exists
				os.MkdirAll(filepath.Join(filepath.Dir(dst), pf.Link), 0o755)
			}
			if err := os.Symlink(pf.Link, dst); err != nil {
				out.Infra = err.Error()
				return out
			}
			d.Other[pf.Path] = []byte(world.LinkMarker + pf.Link)
			continue
		}
		if err := os.WriteFile(dst, pf.Data, 0o644); err != nil {
			out.Infra = err.Error()
			return out
		}
		d.Other[pf.Path] = pf.Data
	}
	st := &wstate{env: env, w: w, d: d, out: out, root: root, side: side, sortedOK: map[string]bool{}, cleanRewrote: map[string]bool{}, corrupted: map[string]bool{}}
	for i, l := range w.Lifetimes {
		st.runLifetime(i, l)
		if out.Viol != nil || out.Infra != "" {
			break
		}
	}
	return out
}

type wstate struct {
	env      *Env
	w        *World
	d        *model.Disk
	out      *Outcome
	root     string
	side     string
	sortedOK map[string]bool // files sorted by a previous Clean and unchanged since
	// multi-entry files that a Clean of an earlier lifetime rewrote: a slot of such a file
	// that no longer replays its value also violates C10 ("every surviving entry replays
	// exactly the value it held before")
	cleanRewrote map[string]bool
	corrupted    map[string]bool // files damaged by the driver (storage fault)
	faultPaths   map[string]bool // paths of the operations that were made to fail in the current lifetime
}

var footerLine = regexp.MustCompile(`(?m)^at (.+):\d+$`)

var libFrame = regexp.MustCompile(`/(snaps|match|internal/[a-z]+)/[a-zA-Z_]+\.go:\d+`)

func (st *wstate) runLifetime(i int, l *scen.Lifetime) {
	out := st.out
	if l.PreDelete > 0 {
		var solos []string
		for p, s := range st.d.Solo {
			if !s.Dirty {
				solos = append(solos, p)
			}
		}
		sort.Strings(solos)
		if len(solos) > 0 {
			p := solos[l.PreDelete%len(solos)]
			os.Remove(st.root + p)
			delete(st.d.Solo, p)
		}
	}
	if l.PreCorrupt > 0 {
		st.preCorrupt(l.PreCorrupt)
	}
	if l.PreEdit > 0 {
		st.preEdit(l.PreEdit)
	}
	if l.PreLink > 0 {
		st.preLink(l.PreLink)
	}
	before, err := world.ReadDisk(st.root, skipDisk)
	if err != nil {
		out.Infra = err.Error()
		return
	}
	res, err := world.Run(st.env.Bins, st.root, st.side, l, i)
	if err != nil {
		out.Infra = fmt.Sprintf("lifetime %d: %v", i, err)
		return
	}
	out.Stats.Lifetimes++
	tasks := l.Mode == "tasks"
	concProps := func(p ...string) []string {
		if tasks {
			return append(p, "C06")
		}
		return p
	}
	if res.Timeout {
		out.Infra = fmt.Sprintf("lifetime %d: watchdog timeout\nstderr: %s", i, tail(res.Stderr, 2000))
		return
	}
	if res.Report == nil && strings.Contains(res.Stdout+res.Stderr, "test timed out after") {
		// the real test runner gave up: some call never returned. It is a violation only when a
		// goroutine is provably parked inside go-snaps on one of its own locks.
		all := res.Stdout + res.Stderr
		if blockedInLibrary(all) {
			out.Viol = viol("hang", i, -1, "", concProps("C20"), "a Match* call never returned: a goroutine is blocked on a go-snaps lock (test binary timed out)\n%s", tail(all, 1800))
			return
		}
		out.Infra = fmt.Sprintf("lifetime %d: test binary timed out\n%s", i, tail(all, 2500))
		return
	}
	rep := res.Report
	if rep == nil {
		// the process died without a report: a crash outside a Match* call
		if strings.Contains(res.Stderr, "panic:") || strings.Contains(res.Stderr, "fatal error:") || strings.Contains(res.Stdout, "panic:") {
			all := res.Stderr + res.Stdout
			if m := libFrameOutsideHarness(all); m != "" {
				out.Viol = viol("crash", i, -1, m, concProps("C20"), "process crashed in go-snaps code (%s): %s", m, tail(all, 1500))
				return
			}
		}
		out.Infra = fmt.Sprintf("lifetime %d: no report (exit %d)\nstdout: %s\nstderr: %s", i, res.ExitCode, tail(res.Stdout, 1500), tail(res.Stderr, 3000))
		return
	}
	if rep.Fatal != "" {
		out.Infra = "harness: " + rep.Fatal
		return
	}
	if len(res.HarnessRaces) > 0 && rep.Deadlock == "" && !rep.StepCap {
		out.Infra = "race report inside the harness/shims only:\n" + res.HarnessRaces[0]
		return
	}
	out.Stats.Ops += len(rep.Ops)
	out.Stats.Steps += rep.Steps
	if tasks {
		out.Stats.SchedHashes = append(out.Stats.SchedHashes, rep.SchedHash)
		out.Stats.ConfHashes = append(out.Stats.ConfHashes, rep.ConfHash)
		if out.Stats.Decisions == nil {
			out.Stats.Decisions = map[int][]int{}
		}
		out.Stats.Decisions[i] = rep.Decisions
		out.Stats.Probes["tasks_lifetime"]++
		if l.Sched != nil {
			out.Stats.Probes["strategy_"+l.Sched.Strategy]++
			if len(l.Sched.Forced) > 0 {
				out.Stats.Probes["forced_schedule_replayed"]++
			}
		}
		if rep.Forcedmiss > 0 {
			out.Stats.Probes["forced_decisions_not_enabled"] += rep.Forcedmiss
		}
		if l.Race {
			out.Stats.Probes["race_lifetime"]++
		}
		if rep.ConfHash != 14695981039346656037 {
			out.Stats.Probes["shared_file_two_tasks"]++
		}
		probeWindows(rep.Ops, out.Stats.Probes)
	}
	if l.Count > 1 {
		out.Stats.Probes["count_gt_1"]++
	}
	if l.Run != "" {
		out.Stats.Probes["run_filter"]++
	}
	if len(rep.SkipCalls) > 0 {
		out.Stats.Probes["skip_call"]++
	}
	if rep.CleanRan {
		out.Stats.Probes["clean_ran"]++
		if l.Clean != nil && l.Clean.Sort {
			out.Stats.Probes["sort_requested"]++
		}
		if model.ModeOf(l.Env).CleanDeletes() {
			out.Stats.Probes["clean_deletes"]++
		}
		for _, op := range rep.Ops {
			if op.Seq > rep.CleanBegin && op.Mut {
				out.Stats.Probes["clean_rewrote"]++
				break
			}
		}
	}
	for _, c := range rep.Calls {
		sigs := ""
		for _, sg := range c.Signals {
			// (the line number in the footer of a diff report depends on where other tests'
			// entries landed in the file)
			sigs += sg.Kind + ":" + footerLine.ReplaceAllString(model.StripANSI(sg.Text), "at $1:N") + ";"
		}
		out.Stats.Trace = append(out.Stats.Trace, fmt.Sprintf("L%d call %d/%d %s [%s]", i, c.CallID, c.Exec, c.Test, sigs))
	}
	out.Stats.Trace = append(out.Stats.Trace, fmt.Sprintf("L%d sched %d conf %d steps %d", i, rep.SchedHash, rep.ConfHash, rep.Steps))
	// ops per (call, exec)
	type ck struct{ c, e int }
	opsOf := map[ck][]scen.Op{}
	faulted := map[ck]bool{}
	hardFault := map[ck]bool{} // hit by a fault other than "this file is read-only"
	anyFault := false
	for _, op := range rep.Ops {
		k := ck{op.Call, op.Exec}
		opsOf[k] = append(opsOf[k], op)
		if op.Fault {
			faulted[k] = true
			if !op.RO {
				hardFault[k] = true
			}
			anyFault = true
			out.Stats.Faults[op.Kind+":"+faultName(l, op)]++
			out.Stats.Probes["fault_fired"]++
		}
	}
	lf := model.NewLife(l)
	// a faulted call that changed nothing on disk (every mutating operation it attempted
	// failed without writing a byte, or it attempted none) leaves the files as they were
	changedDisk := map[ck]bool{}
	for _, op := range rep.Ops {
		if op.Mut && (op.Err == "" || op.N > 0) {
			changedDisk[ck{op.Call, op.Exec}] = true
		}
	}
	cleanFailure := func(k ck, ev *scen.CallEvent) bool {
		if changedDisk[k] || !ev.Done {
			return false
		}
		o, bad := model.Decode(ev.Signals)
		return bad == "" && o == model.Failed
	}
	cleanFail := map[ck]bool{}
	for ci := range rep.Calls {
		ev := &rep.Calls[ci]
		k := ck{ev.CallID, ev.Exec}
		if faulted[k] && cleanFailure(k, ev) {
			cleanFail[k] = true
		}
	}
	if tasks && anyFault {
		// concurrent calls are judged task by task, not in real-time order: whatever a
		// faulted call touched is unpredicted for every call of this lifetime
		for _, op := range rep.Ops {
			if faulted[ck{op.Call, op.Exec}] && !cleanFail[ck{op.Call, op.Exec}] && op.Call >= 0 && op.Path != "" && !strings.HasSuffix(op.Kind, "dir") && op.Kind != "mkdirall" {
				solo := false
				if c := lf.Call(op.Call); c != nil {
					solo = scen.Standalone(c.API)
				}
				st.d.MarkDirty(op.Path, solo)
			}
		}
	}
	updatedAny := false
	matcherFailAny := false
	for ci := range rep.Calls {
		ev := &rep.Calls[ci]
		out.Stats.Calls++
		ex, err := lf.Step(st.d, ev, ev.Node)
		if err != nil {
			out.Infra = err.Error()
			return
		}
		if !ev.Done {
			// killed or aborted inside this call
			st.d.NoteDirtyCall(ex)
			continue
		}
		obs, bad := model.Decode(ev.Signals)
		key := ck{ev.CallID, ev.Exec}
		item := fmt.Sprintf("%s#%d@%s", ex.Test, ex.K, filepath.Base(ex.File))
		if bad != "" {
			props := concProps("C20")
			if ex.Why == "matcher" {
				props = append(props, "C17")
			}
			out.Viol = viol("signals", i, ev.CallID, item, uniq(props), "call %d (%s %s): not exactly one outcome: %s", ev.CallID, ex.Call.API, item, bad)
			return
		}
		out.Stats.Outcomes[obs]++
		// (a read-only snapshot file does not hinder a call that has nothing to store: a call
		// the model expects to pass, or to fail without writing, and that met no other fault is
		// judged in full - it had no reason to ask for write access)
		roNoWrite := faulted[key] && !hardFault[key] && !ex.Dirty && (ex.Outcome == model.Passed || ex.Outcome == model.Failed)
		if roNoWrite {
			out.Stats.Probes["readonly_file_call_judged_in_full"]++
		}
		if faulted[key] && !roNoWrite && ex.Why != "matcher" && ex.Why != "invalid" {
			// (a call whose matchers fail or whose input is invalid is decided before any disk
			// access: a fault it meets all the same does not change what it has to report)
			// narrow oracle under faults: one outcome signal (checked above); nothing on CI
			if lf.Mode.CI {
				for _, op := range opsOf[key] {
					if op.Mut {
						out.Viol = viol("ci-mutation", i, ev.CallID, item, []string{"C05"}, "call %d mutated the disk on CI (%s %s) after an injected fault", ev.CallID, op.Kind, op.Path)
						return
					}
				}
			}
			// ... and the signal must not be a false claim: a call that says it stored
			// something (added / updated) has performed at least one write that was reported to it as successful.
			// (Which operation failed and what the library does about it is its own business -
			// e.g. it may ignore a failing MkdirAll when the directory exists - but "added"
			// with every write of the call failed is not an outcome, it is a lost error.)
			if obs == model.Added || obs == model.Updated {
				stored := false
				for _, op := range opsOf[key] {
					switch op.Kind {
					case "write", "writeat", "writefile", "rename", "link", "symlink":
						// (a short write that reports no error is a lying disk: the library was told "ok")
						if op.Err == "" {
							stored = true
						}
					}
				}
				if !stored {
					cprops := []string{"C20"}
					if obs == model.Updated {
						cprops = append(cprops, "C04") // "rewrites ... to exactly the new values": nothing was rewritten
					} else {
						cprops = append(cprops, "C03") // the slot the call claims to have created does not exist
					}
					if scen.Standalone(ex.Call.API) {
						cprops = append(cprops, "C19")
					}
					vv := viol("claimed-write-did-not-happen", i, ev.CallID, item, concProps(uniq(cprops)...), "call %d (%s %s) signals %q, but no write of this call succeeded (injected fault: every write of the call failed or none was made)", ev.CallID, ex.Call.API, item, obs)
					if st.hit(vv) {
						return
					}
				}
			}
			lf.Tally[obs]++
			if cleanFail[key] {
				// the call failed and wrote nothing: the disk is what it was, the slot's ordinal
				// is consumed ("a failing call still consumes its ordinal"), later calls are
				// judged as usual
				out.Stats.Probes["faulted_call_failed_cleanly"]++
				continue
			}
			st.d.NoteDirtyCall(ex)
			continue
		}
		if ex.Dirty {
			lf.Tally[obs]++
			st.d.NoteDirtyCall(ex)
			out.Stats.Probes["calls_not_judged_"+ex.Why]++
			continue
		}
		out.Stats.Probes["judged_"+ex.Why+"_"+ex.Outcome]++
		if ex.Prev != nil {
			out.Stats.NonTrivial = true
		}
		if ex.K >= 10 {
			out.Stats.Probes["ordinal_ge_10"]++
		}
		if obs != ex.Outcome {
			if st.hit(st.outcomeViolation(i, l, ev, ex, obs, item)) {
				return
			}
			lf.Tally[obs]++
			st.d.NoteDirtyCall(ex)
			continue
		}
		if obs == model.Updated {
			updatedAny = true
		}
		// read-only calls write nothing
		if obs == model.Passed || obs == model.Failed {
			for _, op := range opsOf[key] {
				if op.Mut {
					props := []string{}
					switch ex.Why {
					case "equal":
						props = append(props, "C01")
						if lf.Mode.MayUpdate(cfgUpd(lf, ex.Call)) {
							props = append(props, "C04")
						}
					case "differ":
						props = append(props, "C02", "C05")
					case "missing":
						props = append(props, "C05")
					case "matcher":
						props = append(props, "C17")
					case "invalid":
						props = append(props, "C20")
					}
					if lf.Mode.CI {
						props = append(props, "C05")
					}
					if scen.Standalone(ex.Call.API) {
						props = append(props, "C19")
					}
					vv := viol("readonly-call-wrote", i, ev.CallID, item, concProps(uniq(props)...), "call %d (%s, %s/%s) performed a mutating disk operation: %s %s", ev.CallID, ex.Call.API, obs, ex.Why, op.Kind, op.Path)
					if !scen.Standalone(ex.Call.API) {
						vv.File = ex.File
					}
					if st.hit(vv) {
						return
					}
					st.d.NoteDirtyCall(ex)
					break
				}
			}
		}
		if ex.Why == "matcher" {
			matcherFailAny = true
			text := ""
			for _, s := range ev.Signals {
				if s.Kind == "error" {
					text = model.StripANSI(s.Text)
				}
			}
			for _, m := range ex.CT.Failing {
				want := fmt.Sprintf("match.%s(\"%s\")", matcherName(m.Kind), m.Path)
				if !strings.Contains(text, want) {
					out.Viol = viol("matcher-not-named", i, ev.CallID, item, []string{"C17"}, "call %d: failure report does not name %s: %q", ev.CallID, want, clip(text))
					return
				}
			}
		}
		lf.Apply(st.d, ex, tasks)
		if ex.Outcome == model.Added && !scen.Standalone(ex.Call.API) {
			delete(st.sortedOK, ex.File)
		}
	}
	if rep.Deadlock != "" || rep.StepCap {
		what := "deadlock: " + rep.Deadlock
		if rep.StepCap {
			what = "step budget exhausted"
		}
		out.Viol = viol("no-progress", i, -1, "", []string{"C06", "C20"}, "simulated tests cannot all finish: %s (after %d steps)", what, rep.Steps)
		return
	}
	if len(res.Races) > 0 {
		props := []string{"C06"}
		if strings.Contains(res.Races[0], "Config") || strings.Contains(res.Races[0], "matchStandaloneJSON.go") {
			props = append(props, "C12")
		}
		if strings.Contains(res.Races[0], "Matchers") {
			props = append(props, "C17") // a race on the matcher path
		}
		if strings.Contains(res.Races[0], "tandalone") {
			props = append(props, "C19") // a race on the standalone path
		}
		out.Viol = viol("data-race", i, -1, raceItem(res.Races[0]), props, "race detector report with a go-snaps frame:\n%s", tail2(res.Races[0], 2500))
		return
	}
	if rep.Killed {
		// only durable state survives; the model cannot know how far the killed call got
		for _, op := range rep.Ops {
			if op.Err == "KILL" {
				st.d.MarkDirty(op.Path, false)
			}
		}
	}
	if !rep.Complete && !rep.Killed {
		out.Infra = fmt.Sprintf("lifetime %d: incomplete report", i)
		return
	}
	after, err := world.ReadDisk(st.root, skipDisk)
	if err != nil {
		out.Infra = err.Error()
		return
	}
	// CI: nothing at all may change
	if lf.Mode.CI {
		rm, ad, ch := world.Diff(before, after)
		if len(rm)+len(ad)+len(ch) > 0 {
			out.Viol = viol("ci-mutation", i, -1, first(rm, ad, ch), []string{"C05"}, "disk changed during a CI lifetime: removed %v added %v changed %v", rm, ad, ch)
			return
		}
		for _, op := range rep.Ops {
			if op.Mut {
				out.Viol = viol("ci-mutation", i, op.Call, op.Path, []string{"C05"}, "mutating operation on CI: %s %s", op.Kind, op.Path)
				return
			}
		}
	}
	cleanTouched := map[string]bool{}
	var plan *model.CleanPlan
	if rep.CleanRan && l.Clean != nil {
		for _, op := range rep.Ops {
			if op.Seq > rep.CleanBegin && op.Mut {
				cleanTouched[op.Path] = true
				if op.Kind == "rename" {
					cleanTouched[op.Arg] = true // (the target of an atomic replace)
				}
			}
		}
		// a directory that Clean could not list is simply not examined: only the files in
		// it stop being predicted, everything else is still demanded
		// ... and a file that Clean could not remove simply stays (listed or not): only that
		// file stops being predicted
		onlyReaddir := true
		badDirs := map[string]bool{}
		badFiles := map[string]bool{}
		for _, op := range rep.Ops {
			if op.Seq > rep.CleanBegin && op.Fault {
				switch op.Kind {
				case "readdir":
					badDirs[op.Path] = true
				case "remove":
					badFiles[op.Path] = true
				default:
					onlyReaddir = false
				}
			}
		}
		readdirOnly := onlyReaddir && len(badDirs)+len(badFiles) > 0
		if readdirOnly {
			for p := range badFiles {
				if _, ok := st.d.Other[p]; ok {
					delete(st.d.Other, p)
					st.d.Multi[p] = &model.MFile{Dirty: true}
				} else {
					_, solo := st.d.Solo[p]
					st.d.MarkDirty(p, solo)
				}
			}
		}
		if readdirOnly {
			for p, f := range st.d.Multi {
				if badDirs[filepath.Dir(p)] {
					f.Dirty = true
				}
			}
			for p, s := range st.d.Solo {
				if badDirs[filepath.Dir(p)] {
					s.Dirty = true
				}
			}
			for p := range st.d.Other {
				if badDirs[filepath.Dir(p)] && strings.Contains(filepath.Base(p), ".snap") {
					delete(st.d.Other, p)
					st.d.Multi[p] = &model.MFile{Dirty: true}
				}
			}
		}
		plan = lf.PlanClean(st.d, rep.Ran, rep.SkipCalls)
		for p := range st.corrupted {
			if lf.Addressed[p] != nil {
				plan.WildIDs = true
			}
		}
		for _, prop := range plan.KeepTests {
			out.Stats.Probes["clean_keep_entries_"+prop]++
		}
		for _, prop := range plan.KeepFiles {
			out.Stats.Probes["clean_keep_files_"+prop]++
		}
		{
			// the same id stale in one file and to be kept in another one
			keptIn := map[string]int{}
			for k := range plan.KeepTests {
				_, id := model.SplitKey(k)
				keptIn[id]++
			}
			for k := range plan.ObsoleteTests {
				if _, id := model.SplitKey(k); keptIn[id] > 0 {
					out.Stats.Probes["stale_id_kept_in_other_file"]++
					if plan.Deletes {
						out.Stats.Probes["stale_id_kept_in_other_file_clean_mode"]++
					}
				}
			}
		}
		out.Stats.Probes["clean_obsolete_entries"] += len(plan.ObsoleteTests)
		out.Stats.Probes["clean_obsolete_files"] += len(plan.ObsoleteFiles)
		out.Stats.Probes["clean_free_items"] += len(plan.FreeTests) + len(plan.FreeFiles)
		if st.checkClean(i, l, lf, rep, plan, anyFault, cleanTouched, readdirOnly) {
			return
		}
		for _, op := range rep.Ops {
			if readdirOnly {
				break
			}
			if op.Seq > rep.CleanBegin && op.Fault {
				// a fault hit Clean itself: what it did to the snapshot files is not predicted
				st.d.MarkAllDirty()
				for p := range st.d.Other {
					if strings.Contains(filepath.Base(p), ".snap") {
						delete(st.d.Other, p) // a stale .snap file may or may not have been removed
						st.d.Multi[p] = &model.MFile{Dirty: true}
					}
				}
				plan = nil
				break
			}
		}
	}
	// paths on which an operation was made to fail in this lifetime: a file that is left
	// behind there (a temporary file that could not be removed or renamed) is the fault's
	// doing, not a file "no call can have produced"
	st.faultPaths = map[string]bool{}
	for _, op := range rep.Ops {
		if op.Fault {
			st.faultPaths[op.Path] = true
			if op.Kind == "rename" {
				st.faultPaths[op.Arg] = true
			}
		}
	}
	if st.checkDisk(i, l, lf, after, plan, cleanTouched, updatedAny, matcherFailAny) {
		return
	}
	for p := range cleanTouched {
		st.cleanRewrote[p] = true
	}
	out.Stats.StateHashes = append(out.Stats.StateHashes, after.Hash())
	for _, op := range rep.Ops {
		if rep.CleanBegin > 0 && op.Seq > rep.CleanBegin && op.Fault {
			// Clean walks its registries in Go map order, which no seed decides: where a fault
			// stops it, the files it had already rewritten by then differ from execution to
			// execution (DESIGN.md 5.8). The disk is not predicted from here on (MarkAllDirty above).
			out.Stats.Trace = append(out.Stats.Trace, fmt.Sprintf("L%d %s", i, CleanFaultMark))
			break
		}
	}
	out.Stats.Trace = append(out.Stats.Trace, fmt.Sprintf("L%d disk %s", i, after.Hash()))
}

// preCorrupt damages one predicted snapshot file on the real disk (storage fault
// between two process lifetimes) and stops predicting it.
func (st *wstate) preCorrupt(n int) {
	var files []string
	for p, f := range st.d.Multi {
		if !f.Dirty {
			files = append(files, p)
		}
	}
	for p, s := range st.d.Solo {
		if !s.Dirty {
			files = append(files, p)
		}
	}
	sort.Strings(files)
	if len(files) == 0 {
		return
	}
	p := files[n%len(files)]
	data, err := os.ReadFile(st.root + p)
	if err != nil {
		return
	}
	kind := []string{"torn_tail", "flipped_byte", "half_entry_appended", "last_terminator_lost", "emptied"}[(n/len(files))%5]
	switch kind {
	case "torn_tail":
		data = data[:(n*7919)%(len(data)+1)]
	case "flipped_byte":
		if len(data) > 0 {
			data[(n*7919)%len(data)] ^= 0x20
		}
	case "half_entry_appended":
		data = append(data, []byte("\n[TestA - 1]\nhalf written")...)
	case "last_terminator_lost":
		data = []byte(strings.TrimSuffix(string(data), "---\n"))
	case "emptied":
		data = nil
	}
	if os.WriteFile(st.root+p, data, 0o644) != nil {
		return
	}
	_, solo := st.d.Solo[p]
	st.d.MarkDirty(p, solo)
	st.corrupted[p] = true
	st.out.Stats.Faults["storage:"+kind]++
	st.out.Stats.Probes["fault_fired"]++
}

// CleanFaultMark: trace line after which an execution is no longer a function of the seed.
const CleanFaultMark = "clean-hit-by-fault (map order decides what was rewritten before it stopped)"

// LinkStore is where preLink keeps the files it replaces by symbolic links (never
// compared: what counts is what the snapshot directories show).
var LinkStore = scen.NominalDir + "/" + world.LinkStoreName

// preLink replaces one predicted snapshot file by a symbolic link to the same content
// kept elsewhere; reading, appending, rewriting and truncating follow the link, so the
// file stays predicted under its name.
func (st *wstate) preLink(n int) {
	var files []string
	for p, f := range st.d.Multi {
		if !f.Dirty {
			files = append(files, p)
		}
	}
	for p, s := range st.d.Solo {
		if !s.Dirty {
			files = append(files, p)
		}
	}
	sort.Strings(files)
	if len(files) == 0 {
		return
	}
	p := files[n%len(files)]
	fi, err := os.Lstat(st.root + p)
	if err != nil || !fi.Mode().IsRegular() {
		return
	}
	store := st.root + LinkStore
	if os.MkdirAll(store, 0o755) != nil {
		return
	}
	target := fmt.Sprintf("%s/%d_%s", store, n, filepath.Base(p))
	if os.Rename(st.root+p, target) != nil {
		return
	}
	if os.Symlink(target, st.root+p) != nil {
		os.Rename(target, st.root+p)
		return
	}
	st.out.Stats.Faults["storage:file_is_symlink"]++
	st.out.Stats.Probes["snapshot_file_symlinked"]++
}

// preEdit inserts extra blank lines into one structurally parseable multi-entry file
// (a hand edit the library ignores); the file stays predicted.
func (st *wstate) preEdit(n int) {
	var files []string
	for p, f := range st.d.Multi {
		if !f.Dirty && Parseable(f) && len(f.Entries) > 0 {
			files = append(files, p)
		}
	}
	sort.Strings(files)
	if len(files) == 0 {
		return
	}
	p := files[n%len(files)]
	data, err := os.ReadFile(st.root + p)
	if err != nil {
		return
	}
	if _, perr := ParseSnap(data); perr != nil {
		return
	}
	var out string
	kind := "blank_lines"
	switch (n / 7) % 4 {
	case 1:
		// packed: the blank separator lines removed (a terminator line directly followed by
		// the next header; inside a body a terminator line is always stored escaped)
		kind = "packed"
		out = strings.ReplaceAll(string(data), "\n---\n\n[", "\n---\n[")
		out = strings.TrimPrefix(out, "\n")
	case 2:
		// an empty value written by hand as a header directly followed by the terminator
		// (the library writes one blank body line; both read back as the empty string)
		kind = "zero_line_body"
		out = string(data)
		for _, e := range st.d.Multi[p].Entries {
			if e.Text.Known && e.Text.S == "" {
				out = strings.Replace(out, "["+e.ID()+"]\n\n---\n", "["+e.ID()+"]\n---\n", 1)
			}
		}
	default:
		// entries are separated by "---\n": put blank lines after the k-th terminator (or at the top)
		parts := strings.SplitAfter(string(data), "\n---\n")
		k := (n / len(files)) % (len(parts) + 1)
		extra := strings.Repeat("\n", 1+n%3)
		if k == 0 {
			out = extra + string(data)
		} else {
			out = strings.Join(parts[:k], "") + extra + strings.Join(parts[k:], "")
		}
	}
	if out == string(data) {
		return
	}
	if act, perr := ParseSnap([]byte(out)); perr != nil || len(act) != len(st.d.Multi[p].Entries) {
		return // (a body that itself holds a terminator-like sequence: leave the file alone)
	}
	if os.WriteFile(st.root+p, []byte(out), 0o644) != nil {
		return
	}
	delete(st.sortedOK, p)
	st.out.Stats.Probes["hand_edit_"+kind]++
}

func cfgUpd(lf *model.Life, c *scen.Call) *bool {
	if cfg := lf.Cfg(c); cfg != nil {
		return cfg.EffUpdate()
	}
	return nil
}

func matcherName(kind string) string {
	switch kind {
	case "any":
		return "Any"
	case "type":
		return "Type"
	}
	return "Custom"
}

func faultName(l *scen.Lifetime, op scen.Op) string {
	if op.RO {
		for _, f := range l.Faults {
			if f.Kind == "aofile" && strings.Contains(op.Path, f.PathSuffix) {
				return "aofile"
			}
		}
		return "rofile"
	}
	for _, f := range l.Faults {
		if f.Kind == op.Kind {
			if f.Kill {
				return "kill"
			}
			if f.Short > 0 {
				return "short+" + f.Err
			}
			return f.Err
		}
	}
	return "?"
}

// blockedInLibrary: the goroutine dump of a timed-out test binary shows a
// goroutine waiting in sync.(*Mutex).Lock / (*RWMutex).Lock/RLock called from a
// go-snaps function.
func blockedInLibrary(dump string) bool {
	for _, g := range strings.Split(dump, "\n\ngoroutine ") {
		if !strings.Contains(g, "sync.(*Mutex).Lock") && !strings.Contains(g, "sync.(*RWMutex).Lock") && !strings.Contains(g, "sync.(*RWMutex).RLock") && !strings.Contains(g, "sync.runtime_Semacquire") {
			continue
		}
		if strings.Contains(g, "verif/sim/simsync.") && strings.Contains(g, "github.com/gkampitakis/go-snaps/snaps.") {
			return true
		}
	}
	return false
}

func libFrameOutsideHarness(s string) string {
	for _, m := range libFrame.FindAllString(s, -1) {
		if !strings.Contains(m, "zz_world_") {
			return m
		}
	}
	return ""
}

func raceItem(r string) string {
	ms := libFrame.FindAllString(r, -1)
	var out []string
	for _, m := range ms {
		if !strings.Contains(m, "zz_world_") {
			out = append(out, strings.TrimPrefix(m, "/"))
			if len(out) == 1 {
				break
			}
		}
	}
	return strings.Join(out, ",")
}

func (st *wstate) outcomeViolation(i int, l *scen.Lifetime, ev *scen.CallEvent, ex *model.Expect, obs, item string) *Violation {
	tasks := l.Mode == "tasks"
	var props []string
	oracle := ""
	solo := scen.Standalone(ex.Call.API)
	switch ex.Why {
	case "equal":
		oracle = "equal-not-passed"
		props = []string{"C01", "C03"}
		if obs == model.Updated {
			props = append(props, "C04")
		}
	case "differ":
		if ex.Outcome == model.Failed {
			oracle = "differ-not-failed"
			props = []string{"C02"}
			if obs != model.Passed {
				props = append(props, "C05")
			}
		} else {
			oracle = "differ-not-updated"
			props = []string{"C04", "C05"}
		}
	case "missing":
		if ex.Outcome == model.Added {
			oracle = "missing-not-added"
			props = []string{"C03", "C05"}
		} else {
			oracle = "missing-not-failed"
			props = []string{"C05"}
			if obs == model.Passed {
				props = append(props, "C03")
			}
		}
	case "matcher":
		oracle = "matcher-failure-not-failed"
		props = []string{"C17"}
	case "invalid":
		oracle = "invalid-input-not-failed"
		props = []string{"C20"}
	}
	if solo {
		props = append(props, "C19")
	}
	if tasks {
		props = append(props, "C06")
	}
	if !solo && st.cleanRewrote[ex.File] && (ex.Why == "equal" || ex.Why == "differ") {
		props = append(props, "C10")
	}
	if obs == model.Failed && ex.Why != "matcher" && len(ex.Call.Matchers) > 0 {
		for _, sg := range ev.Signals {
			if sg.Kind == "error" && strings.Contains(sg.Text, "match.") {
				// a matcher was reported as failing although none of them has to fail
				// (e.g. a missing path under ErrOnMissingPath(false))
				props = append(props, "C17")
			}
		}
	}
	sig := ""
	for _, s := range ev.Signals {
		sig += s.Kind + ": " + clip(model.StripANSI(s.Text)) + "; "
	}
	vv := viol(oracle, i, ev.CallID, item, uniq(props), "lifetime %d call %d (%s by %s, slot %s in %s): model expects %s (%s), observed %s [%s]",
		i, ev.CallID, ex.Call.API, ex.Test, strconv.Itoa(ex.K), ex.File, ex.Outcome, ex.Why, obs, sig)
	if !solo {
		vv.File = ex.File
	}
	return vv
}

func uniq(in []string) []string {
	seen := map[string]bool{}
	var out []string
	for _, s := range in {
		if !seen[s] {
			seen[s] = true
			out = append(out, s)
		}
	}
	sort.Strings(out)
	return out
}

func first(ls ...[]string) string {
	for _, l := range ls {
		if len(l) > 0 {
			return l[0]
		}
	}
	return ""
}

func tail(s string, n int) string {
	if len(s) > n {
		return "..." + s[len(s)-n:]
	}
	return s
}

func tail2(s string, n int) string {
	if len(s) > n {
		return s[:n] + "..."
	}
	return s
}

// probeWindows counts how often the race windows of the read-modify-write path
// were actually entered by another task's write.
func probeWindows(ops []scen.Op, probes map[string]int) {
	type key struct {
		task int
		path string
	}
	open := map[key]int64{}
	trunc := map[key]int64{}
	for _, op := range ops {
		k := key{op.Task, op.Path}
		switch op.Kind {
		case "openfile":
			if strings.Contains(op.Arg, "rdwr") {
				open[k] = op.Seq
			}
		case "truncate":
			if o, ok := open[k]; ok {
				for _, w := range ops {
					if w.Kind == "write" && w.Path == op.Path && w.Task != op.Task && w.Seq > o && w.Seq < op.Seq {
						probes["append_between_open_and_truncate"]++
						break
					}
				}
			}
			trunc[k] = op.Seq
		case "write":
			if t, ok := trunc[k]; ok {
				for _, w := range ops {
					if w.Kind == "write" && w.Path == op.Path && w.Task != op.Task && w.Seq > t && w.Seq < op.Seq {
						probes["append_between_truncate_and_write"]++
						break
					}
				}
				delete(trunc, k)
			}
		}
	}
}
