package check

import (
	"bytes"
	"encoding/json"
	"fmt"
	"path/filepath"
	"regexp"
	"sort"
	"strconv"
	"strings"

	"verif/internal/model"
	"verif/internal/world"
	"verif/sim/scen"
)

type Summary struct {
	Present bool
	Tally   map[string]int
	Files   []string
	Tests   []string
	Verb    string
	Raw     string
}

var (
	tallyRE   = regexp.MustCompile(`^\S+ (\d+) snapshots? (passed|failed|added|updated|skipped)$`)
	sectionRE = regexp.MustCompile(`^\S+ (\d+) snapshot (file|files|test|tests) (obsolete|removed)$`)
	itemRE    = regexp.MustCompile(`^\s+↳\s+•\s(.*)$`)
)

// ParseSummary reads the "Snapshot Summary" block that Clean prints.
func ParseSummary(out string) (*Summary, error) {
	s := &Summary{Tally: map[string]int{}, Raw: out}
	txt := model.StripANSI(out)
	if !strings.Contains(txt, "Snapshot Summary") {
		return s, nil
	}
	s.Present = true
	section := ""
	declared := map[string]int{}
	for _, line := range strings.Split(txt, "\n") {
		if m := tallyRE.FindStringSubmatch(line); m != nil {
			n, _ := strconv.Atoi(m[1])
			if _, dup := s.Tally[m[2]]; dup {
				return s, fmt.Errorf("tally %q printed twice", m[2])
			}
			s.Tally[m[2]] = n
			continue
		}
		if m := sectionRE.FindStringSubmatch(line); m != nil {
			n, _ := strconv.Atoi(m[1])
			section = m[2][:4]
			declared[section] = n
			s.Verb = m[3]
			continue
		}
		if strings.HasPrefix(line, "  ") && section != "" {
			if m := itemRE.FindStringSubmatch(line); m != nil {
				if section == "file" {
					s.Files = append(s.Files, m[1])
				} else {
					s.Tests = append(s.Tests, m[1])
				}
			}
			continue
		}
	}
	// Clean visits directories in Go map order: the lists are compared as sets
	sort.Strings(s.Files)
	sort.Strings(s.Tests)
	if n, ok := declared["file"]; ok && n != len(s.Files) {
		return s, fmt.Errorf("summary announces %d obsolete files but lists %d", n, len(s.Files))
	}
	if n, ok := declared["test"]; ok && n != len(s.Tests) {
		return s, fmt.Errorf("summary announces %d obsolete tests but lists %d", n, len(s.Tests))
	}
	return s, nil
}

func (st *wstate) checkClean(i int, l *scen.Lifetime, lf *model.Life, rep *scen.Report, plan *model.CleanPlan, anyFault bool, touched map[string]bool, readdirOnly bool) bool {
	if rep.CleanPanic != "" {
		return st.hit(viol("clean-panic", i, -1, "", []string{"C20"}, "Clean panicked: %s", tail2(rep.CleanPanic, 1500)))
	}
	cleanFault := false
	for _, op := range rep.Ops {
		if op.Seq > rep.CleanBegin && op.Fault && !readdirOnly {
			cleanFault = true
		}
	}
	// modes in which Clean may not write at all
	if !plan.Deletes && !plan.MayReorder {
		for _, p := range model.SortedKeys(touched) {
			props := []string{"C05", "C09"}
			if lf.Mode.CI {
				props = []string{"C05"}
			}
			vv := viol("clean-wrote-in-report-mode", i, -1, p, props, "Clean mutated %s although it may neither delete (UPDATE_SNAPS=%q, CI=%v) nor sort", p, lf.Mode.UpdVar, lf.Mode.CI)
			vv.File = p
			if st.hit(vv) {
				return true
			}
		}
	}
	// listed items that must not be listed
	obsIDs := map[string]int{}
	freeIDs := map[string]bool{}
	keepIDs := map[string]string{}
	checkKept := func(sum *Summary) bool {
		for _, f := range sum.Files {
			if prop, keep := plan.KeepFiles[f]; keep {
				lprops := []string{prop}
				if !plan.HasRun {
					lprops = uniq(append(lprops, "C09")) // the report is exact: only stale items are listed
				}
				vv := viol("clean-listed-kept-file", i, -1, f, lprops, "Clean lists %s as obsolete but it %s", f, keepWhy(prop))
				vv.File = f
				if st.hit(vv) {
					return true
				}
				st.d.MarkDirty(f, false)
			}
		}
		keepFile := map[string]string{}
		rank := map[string]int{"C09": 1, "C07": 2, "C08": 3}
		bestRank := map[string]int{}
		for _, k := range model.SortedKeys(plan.KeepTests) {
			prop := plan.KeepTests[k]
			f, id := model.SplitKey(k)
			// the summary prints ids without their file: when the same id is kept in several
			// files, blame the one Clean can actually have examined
			r := rank[prop] * 2
			if lf.Addressed[f] != nil {
				r++ // Clean only looks inside files that were addressed
			}
			if r > bestRank[id] {
				bestRank[id] = r
				keepIDs[id] = prop
				keepFile[id] = f
			}
		}
		for k := range plan.FreeTests {
			_, id := model.SplitKey(k)
			freeIDs[id] = true
		}
		for k := range plan.ObsoleteTests {
			_, id := model.SplitKey(k)
			obsIDs[id]++
		}
		for _, id := range sum.Tests {
			if obsIDs[id] > 0 || freeIDs[id] || plan.MaybeDirty(id) {
				// (the listing cannot be attributed to one file: the id is legitimately listed for
				// another file or may live in an unpredicted one. Whether the kept entry of the
				// same id survived is decided by the disk comparison below.)
				continue
			}
			if prop, keep := keepIDs[id]; keep {
				lprops := []string{prop}
				if !plan.HasRun {
					lprops = uniq(append(lprops, "C09"))
				}
				vv := viol("clean-listed-kept-entry", i, -1, id, lprops, "Clean lists entry [%s] as obsolete but it %s", id, keepWhy(prop))
				vv.File = keepFile[id]
				if st.hit(vv) {
					return true
				}
				for k := range plan.KeepTests {
					if f, kid := model.SplitKey(k); kid == id {
						st.d.MarkDirty(f, false) // the summary does not say which file: none of them is predicted any more
					}
				}
			}
		}
		return false
	}
	if cleanFault {
		// a fault hit Clean itself: only "no panic, nothing on CI" is demanded - and, if a
		// summary is printed at all, it must not hide what Clean removed in this very call
		sum, err := ParseSummary(rep.CleanOut)
		if err != nil || !sum.Present {
			return false
		}
		roOnly := true
		for _, op := range rep.Ops {
			if op.Seq > rep.CleanBegin && op.Fault && !op.RO {
				roOnly = false
			}
		}
		if roOnly && checkKept(sum) {
			// (a file that cannot be opened for writing can still be read: what is obsolete and
			// what is not does not depend on it)
			return true
		}
		listed := map[string]bool{}
		for _, f := range sum.Files {
			listed[f] = true
		}
		for _, op := range rep.Ops {
			if op.Seq > rep.CleanBegin && op.Kind == "remove" && op.Mut && !listed[op.Path] {
				if st.hit(viol("clean-removed-unlisted-file", i, -1, op.Path, []string{"C20"}, "Clean removed %s but the summary it printed does not list it", op.Path)) {
					return true
				}
			}
		}
		listedT := map[string]bool{}
		for _, id := range sum.Tests {
			listedT[id] = true
		}
		after, derr := world.ReadDisk(st.root, skipDisk)
		if derr != nil {
			return false
		}
		// (a file whose own rewrite was hit by the fault - a failing write, truncate or seek,
		// or the process dying there - may have lost anything: the properties do not promise
		// an atomic rewrite)
		rewriteHit := map[string]bool{}
		for _, op := range rep.Ops {
			if op.Seq > rep.CleanBegin && op.Fault {
				switch op.Kind {
				case "write", "writeat", "writefile", "truncate", "seek", "close", "sync", "rename":
					rewriteHit[op.Path] = true
				}
			}
		}
		for _, path := range model.SortedKeys(touched) {
			f := st.d.Multi[path]
			if f == nil || f.Dirty || !Parseable(f) || rewriteHit[path] {
				continue
			}
			b, present := after[path]
			if !present {
				continue // the whole file was removed: covered by the file list
			}
			act, perr := ParseSnap(b)
			if perr != nil {
				continue
			}
			has := map[string]bool{}
			for _, e := range act {
				has[e.ID] = true
			}
			for _, e := range f.Entries {
				if !has[e.ID()] && !listedT[e.ID()] {
					// (the fault did not hit this file's own rewrite: Clean's rewrite dropped an entry it
					// does not report - C10 as well)
					vv := viol("clean-removed-unlisted-entry", i, -1, e.ID(), []string{"C10", "C20"}, "Clean removed entry [%s] from %s but the summary it printed does not list it", e.ID(), path)
					vv.File = path
					if st.hit(vv) {
						return true
					}
				}
			}
		}
		return false
	}
	sum, err := ParseSummary(rep.CleanOut)
	if err != nil {
		return st.hit(viol("summary-malformed", i, -1, "", []string{"C20"}, "%v\n%s", err, model.StripANSI(rep.CleanOut)))
	}
	// (injected faults do not excuse the totals: the summary counts the outcomes the calls
	// signalled, whatever made them fail; only a lifetime that was killed has calls without
	// an outcome)
	_ = anyFault
	if !rep.Killed {
		want := map[string]int{"passed": lf.Tally[model.Passed], "failed": lf.Tally[model.Failed], "added": lf.Tally[model.Added], "updated": lf.Tally[model.Updated], "skipped": len(rep.SkipCalls)}
		for _, k := range []string{"passed", "failed", "added", "updated", "skipped"} {
			if sum.Tally[k] != want[k] {
				if st.hit(viol("summary-tally", i, -1, k, []string{"C20"}, "Snapshot Summary shows %d %s, the calls of this process produced %d (all tallies printed %v, expected %v)", sum.Tally[k], k, want[k], sum.Tally, want)) {
					return true
				}
			}
		}
	}
	if checkKept(sum) {
		return true
	}
	// ground truth independent of the model: an entry header appended by a Match* call of
	// this process names a slot that was addressed in this process
	if !lf.Mode.CI {
		appended := map[string]string{}
		for _, op := range rep.Ops {
			if op.Kind == "write" && op.Call >= 0 && op.Seq <= rep.CleanBegin {
				if i := strings.Index(op.Arg, " ["); i > 0 && strings.HasSuffix(op.Arg, "]") {
					appended[op.Arg[i+2:len(op.Arg)-1]] = op.Path
				}
			}
		}
		for _, id := range sum.Tests {
			if f, ok := appended[id]; ok && obsIDs[id] == 0 && !freeIDs[id] && !plan.MaybeDirtyElsewhere(id, f) && !st.corrupted[f] {
				vv := viol("clean-listed-appended-entry", i, -1, id, []string{"C07"}, "Clean lists entry [%s] as obsolete although a Match* call of this very process appended it to %s", id, f)
				vv.File = f
				if st.hit(vv) {
					return true
				}
			}
		}
	}
	if !plan.HasRun {
		// completeness and exactness of the report (C09)
		listedF := map[string]bool{}
		for _, f := range sum.Files {
			listedF[f] = true
		}
		for _, f := range model.SortedKeys(plan.ObsoleteFiles) {
			if !listedF[f] {
				vv := viol("clean-missed-stale-file", i, -1, f, []string{"C09"}, "stale file %s is not reported by Clean (reported: %v)", f, sum.Files)
				vv.File = f
				if st.hit(vv) {
					return true
				}
			}
		}
		for _, f := range sum.Files {
			if _, keep := plan.KeepFiles[f]; !plan.ObsoleteFiles[f] && !plan.FreeFiles[f] && !keep {
				if st.hit(viol("clean-listed-unknown-file", i, -1, f, []string{"C09", "C20"}, "Clean lists %s which is not a stale file of a visited directory", f)) {
					return true
				}
			}
		}
		listedT := map[string]int{}
		for _, id := range sum.Tests {
			listedT[id]++
		}
		for _, id := range model.SortedKeys(obsIDs) {
			n := obsIDs[id]
			if listedT[id] < n {
				file := ""
				for k := range plan.ObsoleteTests {
					if f, kid := model.SplitKey(k); kid == id {
						file = f
					}
				}
				props := []string{"C09"}
				if listedT[id] > 0 {
					props = append(props, "C20") // listed, but fewer times than there are stale entries with this id
				}
				if j := strings.LastIndex(id, " - "); j >= 0 {
					for _, sk := range rep.SkipCalls {
						if strings.HasPrefix(id[:j], sk) {
							props = append(props, "C08") // a skip protects the test and its descendants only
						}
					}
				}
				vv := viol("clean-missed-stale-entry", i, -1, id, uniq(props), "stale entry [%s] of %s is not reported by Clean (%d stale entries have this id, reported: %v)", id, file, n, sum.Tests)
				vv.File = file
				if st.hit(vv) {
					return true
				}
			}
		}
		for _, id := range sum.Tests {
			if obsIDs[id] == 0 && !freeIDs[id] && !plan.MaybeDirty(id) {
				if _, keep := keepIDs[id]; !keep {
					if st.hit(viol("clean-listed-unknown-entry", i, -1, id, []string{"C09", "C20"}, "Clean lists entry [%s] which no snapshot file of this world holds as stale", id)) {
						return true
					}
				}
			}
		}
		if len(sum.Files)+len(sum.Tests) > 0 {
			wantVerb := "obsolete"
			if plan.Deletes {
				wantVerb = "removed"
			}
			if sum.Verb != wantVerb {
				if st.hit(viol("summary-verb", i, -1, sum.Verb, []string{"C20", "C09"}, "summary says items were %q but the mode implies %q", sum.Verb, wantVerb)) {
					return true
				}
			}
		}
	}
	// files that need neither pruning nor sorting are not written
	for _, path := range model.SortedKeys(lf.Addressed) {
		if !touched[path] {
			continue
		}
		f := st.d.Multi[path]
		if f == nil || f.Dirty {
			continue
		}
		needsPrune := false
		if plan.Deletes {
			for k := range plan.ObsoleteTests {
				if strings.HasPrefix(k, path+"\x00") {
					needsPrune = true
				}
			}
			for k := range plan.FreeTests {
				if strings.HasPrefix(k, path+"\x00") {
					needsPrune = true
				}
			}
		}
		if needsPrune {
			continue
		}
		if plan.MayReorder && !st.sortedOK[path] {
			continue
		}
		why := "nothing to prune"
		if plan.MayReorder {
			why += " and it was already sorted by the previous Clean"
		}
		vv := viol("clean-unneeded-write", i, -1, path, []string{"C10"}, "Clean rewrote %s although there was %s", path, why)
		vv.File = path
		if st.hit(vv) {
			return true
		}
	}
	return false
}

func keepWhy(prop string) string {
	switch prop {
	case "C07":
		return "was addressed by a Match* call of this process"
	case "C08":
		return "belongs to a test that did not run (skipped through snaps.Skip* or filtered out by -run)"
	}
	return "is not a stale snapshot of a visited directory"
}

// checkDisk compares the real disk with the abstract one after a lifetime.
// After a violation attributed to a known finding the file concerned is no
// longer predicted (dirty) and the comparison goes on with the other files.
func (st *wstate) checkDisk(i int, l *scen.Lifetime, lf *model.Life, after world.Disk, plan *model.CleanPlan, touched map[string]bool, updatedAny, matcherFailAny bool) bool {
	d := st.d
	tasks := l.Mode == "tasks"
	callProps := func(p ...string) []string {
		if tasks {
			p = append(p, "C06")
		}
		if updatedAny {
			p = append(p, "C04")
		}
		if matcherFailAny {
			p = append(p, "C17") // "later calls of the test keep their slots"
		}
		return uniq(p)
	}
	if plan != nil {
		// resolve the items about which nothing is demanded from the real disk
		for f := range plan.FreeFiles {
			if !plan.Deletes {
				break // nothing may be removed in this mode, free or not
			}
			if _, ok := after[f]; !ok {
				delete(d.Multi, f)
				delete(d.Solo, f)
				delete(d.Other, f)
			}
		}
		for k := range plan.FreeTests {
			if !plan.Deletes {
				break
			}
			path, id := model.SplitKey(k)
			if f := d.Multi[path]; f != nil && !f.Dirty {
				if !Parseable(f) {
					f.Dirty = true
					continue
				}
				act, err := ParseSnap(after[path])
				if err != nil {
					continue // reported below
				}
				has := map[string]bool{}
				for _, e := range act {
					has[e.ID] = true
				}
				if !has[id] {
					outE := f.Entries[:0]
					for _, e := range f.Entries {
						if e.ID() != id {
							outE = append(outE, e)
						}
					}
					f.Entries = outE
				}
			}
		}
		d.ApplyClean(plan)
	}
	cleanLabel := func(path, id string, def []string) []string {
		if plan != nil && touched[path] {
			if id != "" {
				if p, ok := plan.KeepTests[path+"\x00"+id]; ok {
					return uniq([]string{p, "C10"}) // a rewrite by Clean dropped an entry that had to survive
				}
			}
			if p, ok := plan.KeepFiles[path]; ok && id == "" {
				return []string{p}
			}
			if plan.ObsoleteTests[path+"\x00"+id] && id != "" {
				return []string{"C05", "C09"} // removed although this mode may not delete
			}
			if plan.ObsoleteFiles[path] || plan.FreeFiles[path] || plan.FreeTests[path+"\x00"+id] {
				return []string{"C05", "C09"}
			}
			return []string{"C10"}
		}
		return def
	}
	expected := map[string]bool{}
	for _, path := range model.SortedKeys(d.Multi) {
		f := d.Multi[path]
		expected[path] = true
		if v := st.checkMulti(i, l, lf, after, plan, touched, callProps, cleanLabel, path, f); v != nil {
			v.File = path
			if st.hit(v) {
				return true
			}
			f.Dirty = true
		}
	}
	for _, path := range model.SortedKeys(d.Solo) {
		s := d.Solo[path]
		expected[path] = true
		if s.Dirty {
			continue
		}
		b, ok := after[path]
		if !ok {
			if st.hit(viol("file-missing", i, -1, path, cleanLabel(path, "", callProps("C19")), "standalone snapshot %s is gone", path)) {
				return true
			}
			delete(d.Solo, path)
			continue
		}
		if s.API == scen.APISJSON && !json.Valid(b) {
			if st.hit(viol("standalone-json-invalid", i, -1, path, callProps("C19"), "standalone JSON snapshot %s is not valid JSON: %q", path, clip(string(b)))) {
				return true
			}
		}
		if s.Text.Known && !bytes.Equal(b, []byte(s.Text.S)) {
			props := callProps("C19")
			if touched[path] {
				props = []string{"C10"}
			}
			if st.hit(viol("standalone-bytes", i, -1, path, props, "standalone file %s holds %q, the formatted value is %q", path, clip(string(b)), clip(s.Text.S))) {
				return true
			}
			s.Dirty = true
		}
	}
	for _, path := range model.SortedKeys(d.Other) {
		expected[path] = true
		b, ok := after[path]
		if !ok || !bytes.Equal(b, d.Other[path]) {
			what := "changed"
			if !ok {
				what = "deleted"
			}
			props := []string{"C09"}
			if plan == nil || !touched[path] {
				props = callProps("C03")
			}
			if st.hit(viol("unrelated-file-touched", i, -1, path, props, "unrelated file %s was %s", path, what)) {
				return true
			}
			delete(d.Other, path)
		}
	}
	for _, path := range model.SortedKeys(d.Dirs) {
		if _, ok := after[path]; !ok {
			if st.hit(viol("unrelated-dir-touched", i, -1, path, []string{"C09"}, "directory %s was removed", path)) {
				return true
			}
			delete(d.Dirs, path)
		}
	}
	var extra []string
	for path, b := range after {
		if expected[path] || string(b) == world.DirMarker {
			continue
		}
		extra = append(extra, path)
	}
	sort.Strings(extra)
	for _, path := range extra {
		if st.faultPaths[path] {
			d.Multi[path] = &model.MFile{Dirty: true} // left behind by an injected fault: not predicted from here on
			continue
		}
		props := callProps("C03")
		if strings.Contains(filepath.Base(path), "_") && !strings.HasPrefix(filepath.Base(path), "zz_world") {
			props = append(props, "C19")
		}
		if plan != nil && plan.Deletes && plan.ObsoleteFiles[path] {
			props = []string{"C05", "C09"}
		}
		vv := viol("unexpected-file", i, -1, path, uniq(props), "file %s exists but no call of the history can have produced it (or it should have been removed)", path)
		vv.File = path
		if st.hit(vv) {
			return true
		}
		d.Multi[path] = &model.MFile{Dirty: true}
	}
	return false
}

func (st *wstate) checkMulti(i int, l *scen.Lifetime, lf *model.Life, after world.Disk, plan *model.CleanPlan, touched map[string]bool,
	callProps func(...string) []string, cleanLabel func(string, string, []string) []string, path string, f *model.MFile) *Violation {
	{
		if f.Dirty {
			return nil
		}
		b, ok := after[path]
		if !ok {
			return viol("file-missing", i, -1, path, cleanLabel(path, "", callProps("C03")), "snapshot file %s holding %d entries is gone", path, len(f.Entries))
		}
		if !Parseable(f) {
			if plan != nil && plan.MayReorder && lf.Addressed[path] != nil {
				f.OrderKnown = false // sorted by Clean, but the new order cannot be read back here
			}
			st.out.Stats.Probes["files_checked_by_replay_only"]++
			return nil
		}
		st.out.Stats.Probes["files_checked_structurally"]++
		act, err := ParseSnap(b)
		if err != nil {
			props := callProps("C03")
			if touched[path] {
				props = []string{"C10"}
			}
			return viol("file-malformed", i, -1, path, props, "%s is not a well-formed sequence of entries: %v\n%q", path, err, clip(string(b)))
		}
		want := map[string]*model.Entry{}
		for k := range f.Entries {
			want[f.Entries[k].ID()] = &f.Entries[k]
		}
		seen := map[string]int{}
		for _, e := range act {
			seen[e.ID]++
			if seen[e.ID] > 1 {
				props := callProps("C03")
				if touched[path] {
					props = []string{"C10"}
				}
				return viol("entry-duplicated", i, -1, e.ID, props, "%s holds entry [%s] more than once", path, e.ID)
			}
			w := want[e.ID]
			if w == nil {
				props := callProps("C03")
				if plan != nil && plan.Deletes {
					if plan.ObsoleteTests[path+"\x00"+e.ID] {
						props = []string{"C05", "C09"} // clean mode did not remove it
					}
				}
				return viol("entry-unexpected", i, -1, e.ID, props, "%s holds entry [%s] which should not exist (any more)", path, e.ID)
			}
			if w.Text.Known && EscapeEnd(w.Text.S) != e.Body {
				return viol("entry-text-wrong", i, -1, e.ID, cleanLabelEntry(plan, touched, path, e.ID, callProps("C03")), "entry [%s] of %s holds %q, expected %q", e.ID, path, clip(e.Body), clip(w.Text.S))
			}
		}
		for id := range want {
			if seen[id] == 0 {
				return viol("entry-lost", i, -1, id, cleanLabel(path, id, callProps("C03")), "entry [%s] is missing from %s", id, path)
			}
		}
		// order
		sorted := plan != nil && plan.MayReorder && lf.Addressed[path] != nil
		if !sorted {
			// pre-existing entries keep their relative order; in sequential runs new ones are appended in call order
			pos := map[string]int{}
			for k, e := range act {
				pos[e.ID] = k
			}
			prev := -1
			for _, e := range f.Entries {
				if !f.OrderKnown {
					break
				}
				p := pos[e.ID()]
				if p < prev {
					props := callProps("C03")
					if touched[path] {
						props = []string{"C09", "C10"}
					}
					return viol("entries-reordered", i, -1, e.ID(), props, "entry [%s] of %s moved although no sorting was requested", e.ID(), path)
				}
				prev = p
			}
		} else {
			for k := 1; k < len(act); k++ {
				a, b := act[k-1], act[k]
				// natural order of the ids: digit runs compare as numbers, everything else
				// byte-wise (the generators never produce leading zeros)
				bad := !naturalLess(a.ID, b.ID)
				if bad && a.ID != b.ID && !naturalLess(b.ID, a.ID) {
					bad = false // a tie (ids that differ only in the zero padding of a number): either order is natural
				}
				if a.Test == b.Test {
					bad = a.K >= b.K
				}
				if bad {
					return viol("not-sorted", i, -1, b.ID, []string{"C10"}, "after Clean with Sort, [%s] precedes [%s] in %s", a.ID, b.ID, path)
				}
			}
			st.sortedOK[path] = true
			if st.out.Stats.Sorted == nil {
				st.out.Stats.Sorted = map[string][]byte{}
			}
			st.out.Stats.Sorted[path] = b
		}
		// adopt the real order
		byID := map[string]model.Entry{}
		for _, e := range f.Entries {
			byID[e.ID()] = e
		}
		f.Entries = f.Entries[:0]
		for _, e := range act {
			f.Entries = append(f.Entries, byID[e.ID])
		}
		f.OrderKnown = true

	}
	return nil
}

// isSJSON: the file was addressed by MatchStandaloneJSON in this lifetime.
func isSJSON(lf *model.Life, path string) bool { return lf.SoloJSON[path] }

func cleanLabelText(plan *model.CleanPlan, touched map[string]bool, path string, def []string) []string {
	if plan != nil && touched[path] {
		return []string{"C10"}
	}
	return def
}

// cleanLabelEntry: Clean rewrote the file and an entry that had to be kept no longer
// holds its text - C10, and the property that protects that entry ("never alters the
// replayed value of an entry that a Match* call addressed during this process").
func cleanLabelEntry(plan *model.CleanPlan, touched map[string]bool, path, id string, def []string) []string {
	if plan != nil && touched[path] {
		props := []string{"C10"}
		if p, ok := plan.KeepTests[path+"\x00"+id]; ok && p != "C09" {
			props = append(props, p)
		}
		return uniq(props)
	}
	return def
}

// naturalLess: the natural order stated by C10, written down independently of the
// library's comparator.
func naturalLess(a, b string) bool {
	isD := func(c byte) bool { return c >= '0' && c <= '9' }
	i, j := 0, 0
	for i < len(a) && j < len(b) {
		if isD(a[i]) && isD(b[j]) {
			si, sj := i, j
			for i < len(a) && isD(a[i]) {
				i++
			}
			for j < len(b) && isD(b[j]) {
				j++
			}
			x, _ := strconv.ParseUint(a[si:i], 10, 64)
			y, _ := strconv.ParseUint(b[sj:j], 10, 64)
			if x != y {
				return x < y
			}
			continue
		}
		if a[i] != b[j] {
			return a[i] < b[j]
		}
		i++
		j++
	}
	return len(a)-i < len(b)-j
}

func hasDigit(s string) bool { return strings.ContainsAny(s, "0123456789") }

// naturalTies: two different ids of the file are equal in natural order (the order is not
// total there, so nothing is demanded about which of them comes first).
func naturalTies(b []byte) bool {
	act, err := ParseSnap(b)
	if err != nil {
		return true
	}
	for i := range act {
		for j := i + 1; j < len(act); j++ {
			if act[i].ID != act[j].ID && !naturalLess(act[i].ID, act[j].ID) && !naturalLess(act[j].ID, act[i].ID) {
				return true
			}
		}
	}
	return false
}
