package check

import (
	"fmt"
	"regexp"
	"strconv"
	"strings"

	"verif/internal/model"
)

// ParsedEntry is one entry of a multi-entry snapshot file.
type ParsedEntry struct {
	ID   string
	Test string
	K    int
	Body string
}

var headerRE = regexp.MustCompile(`^\[(.+) - (\d+)\]$`)

// Parseable: the framing of a file holding these texts is unambiguous - no
// body line can be taken for a header, a terminator or the escape token.
func Parseable(f *model.MFile) bool {
	for _, e := range f.Entries {
		if !e.Text.Known {
			// opaque texts exist only for JSON/YAML mappings rewritten by matchers (and
			// marshalled YAML values): their lines start with a key, a brace or
			// indentation, never with '[' and never equal the terminator
			if strings.HasPrefix(e.Text.Key, "json:") || strings.HasPrefix(e.Text.Key, "yaml:") || strings.HasPrefix(e.Text.Key, "yaml-go:") {
				continue
			}
			return false
		}
		if !PlainText(e.Text.S) {
			return false
		}
	}
	return true
}

// PlainText: the text can be read back from a file unambiguously. A line equal to the
// terminator is stored as its escape (see EscapeEnd) and a bracketed line inside a body
// is never looked at by ParseSnap; what remains ambiguous is a line equal to the escape
// token itself (known finding K1) and a carriage return (documented limitation).
func PlainText(s string) bool {
	if strings.Contains(s, "\r") {
		return false
	}
	for _, l := range strings.Split(s, "\n") {
		if l == "/-/-/-/" {
			return false
		}
	}
	return true
}

// EscapeEnd: how a text appears inside a multi-entry file - a line equal to the
// terminator `---` is stored as `/-/-/-/` (the escape named in property C01).
func EscapeEnd(s string) string {
	if !strings.Contains(s, "---") {
		return s
	}
	ls := strings.Split(s, "\n")
	for i, l := range ls {
		if l == "---" {
			ls[i] = "/-/-/-/"
		}
	}
	return strings.Join(ls, "\n")
}

// ParseSnap parses the documented file layout: a sequence of entries
// "[<id>]\n<body>\n---\n", separated by blank lines (the library writes one before
// each entry; their number is not part of any property). Anything else between
// entries is an error (torn write, residue of an older, longer file).
func ParseSnap(b []byte) ([]ParsedEntry, error) {
	s := string(b)
	var out []ParsedEntry
	if s == "" {
		return out, nil
	}
	lines := strings.Split(strings.TrimSuffix(s, "\n"), "\n")
	i := 0
	for i < len(lines) {
		if lines[i] == "" {
			i++
			continue
		}
		m := headerRE.FindStringSubmatch(lines[i])
		if m == nil {
			return nil, fmt.Errorf("line %d: entry header expected, got %q", i+1, clip(lines[i]))
		}
		k, _ := strconv.Atoi(m[2])
		e := ParsedEntry{ID: m[1] + " - " + m[2], Test: m[1], K: k}
		i++
		start := i
		for i < len(lines) && lines[i] != "---" {
			i++
		}
		if i >= len(lines) {
			return nil, fmt.Errorf("entry %q: terminator missing", e.ID)
		}
		// (a header directly followed by the terminator reads back as the empty value, like
		// the one blank body line the library writes for it)
		e.Body = strings.Join(lines[start:i], "\n")
		i++
		out = append(out, e)
	}
	return out, nil
}

func clip(s string) string {
	if len(s) > 60 {
		return s[:60] + "..."
	}
	return s
}
