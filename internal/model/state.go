package model

import (
	"fmt"
	"path/filepath"
	"sort"
	"strings"

	"verif/sim/scen"
)

type Entry struct {
	Test string
	K    int
	Text Text
	API  string
}

func (e Entry) ID() string { return fmt.Sprintf("%s - %d", e.Test, e.K) }

type MFile struct {
	Entries []Entry
	// OrderKnown is false once the order of entries stopped being predictable
	// (parallel appends, sorting).
	OrderKnown bool
	// Dirty: the model no longer predicts this file (a fault or a known
	// finding touched it); nothing about it is checked any more.
	Dirty bool
}

type SFile struct {
	Text  Text
	Owner string // test name
	K     int
	Dirty bool
	API   string // entry point that wrote the current content
}

// Disk is the abstract disk.
type Disk struct {
	Multi map[string]*MFile
	Solo  map[string]*SFile
	Other map[string][]byte // driver-made unrelated files (never to be touched)
	Dirs  map[string]bool   // driver-made directories
}

func NewDisk() *Disk {
	return &Disk{Multi: map[string]*MFile{}, Solo: map[string]*SFile{}, Other: map[string][]byte{}, Dirs: map[string]bool{}}
}

func (d *Disk) find(path, test string, k int) (*MFile, int) {
	f := d.Multi[path]
	if f == nil {
		return nil, -1
	}
	for i, e := range f.Entries {
		if e.Test == test && e.K == k {
			return f, i
		}
	}
	return f, -1
}

// Life is the volatile state of one process lifetime.
type Life struct {
	L    *scen.Lifetime
	Mode Mode
	// running ordinals
	ord     map[string]int
	ordNode map[string]int
	// cumulative
	Addressed     map[string]map[string]int // file -> test -> highest ordinal
	AddressedSolo map[string]bool
	SoloJSON      map[string]bool // standalone files written through MatchStandaloneJSON
	Tally         map[string]int
	calls         map[int]*scen.Call
	site          map[int]int
	Nodes         map[string]bool // full names of all program nodes
	nodeOfCall    map[int]string
}

func NewLife(l *scen.Lifetime) *Life {
	lf := &Life{L: l, Mode: ModeOf(l.Env), ord: map[string]int{}, ordNode: map[string]int{},
		Addressed: map[string]map[string]int{}, AddressedSolo: map[string]bool{}, SoloJSON: map[string]bool{}, Tally: map[string]int{},
		calls: map[int]*scen.Call{}, site: map[int]int{}, Nodes: map[string]bool{}, nodeOfCall: map[int]string{}}
	var walk func(n *scen.TestNode, site int, full string)
	walk = func(n *scen.TestNode, site int, full string) {
		lf.Nodes[full] = true
		for i := range n.Steps {
			s := &n.Steps[i]
			switch s.Kind {
			case "call":
				lf.calls[s.Call.ID] = s.Call
				lf.site[s.Call.ID] = site
				lf.nodeOfCall[s.Call.ID] = full
			case "sub":
				walk(s.Sub, site, full+"/"+s.Sub.Name)
			}
		}
	}
	for _, n := range l.Tests {
		walk(n, n.Site, n.Name)
	}
	return lf
}

func (lf *Life) Call(id int) *scen.Call { return lf.calls[id] }

func (lf *Life) Cfg(c *scen.Call) *scen.ConfigSpec {
	if c.Cfg < 0 || c.Cfg >= len(lf.L.Configs) {
		return nil
	}
	return &lf.L.Configs[c.Cfg]
}

// Expect describes what the model expects of one call.
type Expect struct {
	Call     *scen.Call
	Test     string
	File     string // concrete file
	K        int
	CT       CallText
	Outcome  string // Passed/Added/Updated/Failed, "" = undecidable (opaque text)
	Why      string // equal, differ, missing, matcher, invalid
	MayWrite bool
	Prev     *Text
	Dirty    bool
}

// Step advances the model by one observed call event (its identity and test
// name only - never its outcome) and returns the expectation.
func (lf *Life) Step(d *Disk, ev *scen.CallEvent, nodeExec int) (*Expect, error) {
	c := lf.calls[ev.CallID]
	if c == nil {
		return nil, fmt.Errorf("unknown call id %d", ev.CallID)
	}
	cfg := lf.Cfg(c)
	loc := Locate(cfg, c.API, lf.site[c.ID], ev.Test)
	ex := &Expect{Call: c, Test: ev.Test}
	var key string
	if loc.Standalone {
		key = "S\x00" + loc.Path
	} else {
		key = "M\x00" + loc.Path + "\x00" + ev.Test
	}
	if lf.ordNode[key] != nodeExec {
		lf.ord[key] = 0
		lf.ordNode[key] = nodeExec
	}
	lf.ord[key]++
	ex.K = lf.ord[key]
	if loc.Standalone {
		ex.File = fmt.Sprintf(loc.Path, ex.K)
		lf.AddressedSolo[ex.File] = true
		if c.API == scen.APISJSON {
			lf.SoloJSON[ex.File] = true
		}
	} else {
		ex.File = loc.Path
		m := lf.Addressed[ex.File]
		if m == nil {
			m = map[string]int{}
			lf.Addressed[ex.File] = m
		}
		if ex.K > m[ev.Test] {
			m[ev.Test] = ex.K
		}
	}
	ex.CT = FormatCall(c, cfg)
	var upd *bool
	if cfg != nil {
		upd = cfg.EffUpdate()
	}
	switch ex.CT.Status {
	case StInvalid:
		ex.Outcome, ex.Why = Failed, "invalid"
		return ex, nil
	case StMatcherFail:
		ex.Outcome, ex.Why = Failed, "matcher"
		return ex, nil
	case StUnknown:
		ex.Why = "unmodelled"
		ex.Dirty = true
		return ex, nil
	}
	// previous content of the slot
	var prev *Text
	if loc.Standalone {
		if s := d.Solo[ex.File]; s != nil {
			if s.Dirty {
				ex.Dirty, ex.Why = true, "dirtyfile"
				return ex, nil
			}
			prev = &s.Text
		}
	} else {
		f, i := d.find(ex.File, ev.Test, ex.K)
		if f != nil && f.Dirty {
			ex.Dirty, ex.Why = true, "dirtyfile"
			return ex, nil
		}
		if i >= 0 {
			prev = &f.Entries[i].Text
		}
	}
	ex.Prev = prev
	if prev == nil {
		ex.Why = "missing"
		if lf.Mode.MayCreate(upd) {
			ex.Outcome, ex.MayWrite = Added, true
		} else {
			ex.Outcome = Failed
		}
		return ex, nil
	}
	eq, known := prev.Equal(ex.CT.Text)
	if !known {
		ex.Why = "opaque"
		ex.Dirty = true
		return ex, nil
	}
	if eq {
		ex.Outcome, ex.Why = Passed, "equal"
		return ex, nil
	}
	ex.Why = "differ"
	if lf.Mode.MayUpdate(upd) {
		ex.Outcome, ex.MayWrite = Updated, true
	} else {
		ex.Outcome = Failed
	}
	return ex, nil
}

// Apply commits the expected effect of a call to the abstract disk.
func (lf *Life) Apply(d *Disk, ex *Expect, parallel bool) {
	if ex.Outcome != "" {
		lf.Tally[ex.Outcome]++
	}
	if ex.Dirty {
		d.NoteDirtyCall(ex)
		return
	}
	switch ex.Outcome {
	case Added:
		if scen.Standalone(ex.Call.API) {
			d.Solo[ex.File] = &SFile{Text: ex.CT.Text, Owner: ex.Test, K: ex.K, API: ex.Call.API}
			return
		}
		f := d.Multi[ex.File]
		if f == nil {
			f = &MFile{OrderKnown: true}
			d.Multi[ex.File] = f
		}
		if parallel {
			f.OrderKnown = false
		}
		f.Entries = append(f.Entries, Entry{Test: ex.Test, K: ex.K, Text: ex.CT.Text, API: ex.Call.API})
	case Updated:
		if scen.Standalone(ex.Call.API) {
			d.Solo[ex.File].Text = ex.CT.Text
			d.Solo[ex.File].API = ex.Call.API
			return
		}
		f, i := d.find(ex.File, ex.Test, ex.K)
		f.Entries[i].Text = ex.CT.Text
		f.Entries[i].API = ex.Call.API
	}
}

func (d *Disk) MarkDirty(path string, solo bool) {
	if f := d.Multi[path]; f != nil {
		f.Dirty = true
		return
	}
	if s := d.Solo[path]; s != nil {
		s.Dirty = true
		return
	}
	// the file may or may not exist from now on
	if solo {
		d.Solo[path] = &SFile{Dirty: true}
	} else {
		d.Multi[path] = &MFile{Dirty: true}
	}
}

// NoteDirtyCall: the model does not predict this call; the file becomes dirty
// but the slot's id is remembered (so that Clean's report can be related to it).
func (d *Disk) NoteDirtyCall(ex *Expect) {
	solo := scen.Standalone(ex.Call.API)
	d.MarkDirty(ex.File, solo)
	if solo {
		return
	}
	f, i := d.find(ex.File, ex.Test, ex.K)
	if f != nil && i < 0 {
		f.Entries = append(f.Entries, Entry{Test: ex.Test, K: ex.K, Text: Text{Key: "?"}, API: ex.Call.API})
	}
}

// MarkAllDirty: nothing about the snapshot files is predicted any more.
func (d *Disk) MarkAllDirty() {
	for _, f := range d.Multi {
		f.Dirty = true
	}
	for _, s := range d.Solo {
		s.Dirty = true
	}
}

// ---------------------------------------------------------------- Clean

// CleanPlan is what the properties C07-C09 demand of a Clean call.
type CleanPlan struct {
	HasRun         bool
	Deletes        bool            // clean mode and not CI
	MayReorder     bool            // sort requested and not CI
	ObsoleteFiles  map[string]bool // must be reported (no -run only)
	ObsoleteTests  map[string]bool // file+"\x00"+id; must be reported (no -run only)
	DirtyAddressed bool            // an addressed file is no longer predicted
	DirtyIDs       map[string]bool // ids that may live in such a file: nothing is demanded about their listing
	DirtyTests     map[string]bool
	dirtyFiles     map[string]*dirtyInfo
	// items that must survive and must not be listed, with the property that
	// protects them
	KeepFiles map[string]string
	KeepTests map[string]string // file+"\x00"+id -> property
	// items about which nothing is demanded (under -run)
	FreeFiles map[string]bool
	FreeTests map[string]bool // file+"\x00"+id
	Dirs      map[string]bool // visited directories
	// WildIDs: an addressed file was damaged by a storage fault; it may hold any id at
	// all, so nothing is demanded about which ids Clean lists (files are still compared).
	WildIDs bool
}

func skipProtected(test string, skipped []string) bool {
	for _, s := range skipped {
		if test == s || strings.HasPrefix(test, s+"/") {
			return true
		}
	}
	return false
}

// PlanClean computes the plan from the abstract disk, the lifetime's registry
// and what the real runner reported (ran: names of executed nodes, skipped:
// names given to snaps.Skip*).
func (lf *Life) PlanClean(d *Disk, ran []string, skipped []string) *CleanPlan {
	p := &CleanPlan{HasRun: lf.L.Run != "", Deletes: lf.Mode.CleanDeletes(),
		MayReorder:    lf.L.Clean != nil && lf.L.Clean.Opts && lf.L.Clean.Sort && !lf.Mode.CI,
		ObsoleteFiles: map[string]bool{}, ObsoleteTests: map[string]bool{}, KeepFiles: map[string]string{}, KeepTests: map[string]string{},
		FreeFiles: map[string]bool{}, FreeTests: map[string]bool{}, Dirs: map[string]bool{}, DirtyIDs: map[string]bool{}, DirtyTests: map[string]bool{}}
	ranSet := map[string]bool{}
	for _, r := range ran {
		ranSet[r] = true
	}
	notRun := func(test string) bool { // a node of the current program that the runner did not execute
		return lf.Nodes[test] && !ranSet[test]
	}
	protected := func(test string) string {
		if skipProtected(test, skipped) {
			return "skip"
		}
		if p.HasRun && notRun(test) {
			return "filter"
		}
		return ""
	}
	for f := range lf.Addressed {
		p.Dirs[filepath.Dir(f)] = true
	}
	for f := range lf.AddressedSolo {
		p.Dirs[filepath.Dir(f)] = true
	}
	for path, f := range d.Multi {
		if f.Dirty {
			if addr, isAddr := lf.Addressed[path]; isAddr {
				p.DirtyAddressed = true
				di := &dirtyInfo{ids: map[string]bool{}, tests: map[string]bool{}}
				if p.dirtyFiles == nil {
					p.dirtyFiles = map[string]*dirtyInfo{}
				}
				p.dirtyFiles[path] = di
				for _, e := range f.Entries {
					p.DirtyIDs[e.ID()] = true
					di.ids[e.ID()] = true
				}
				for t := range addr {
					p.DirtyTests[t] = true
					di.tests[t] = true
				}
			}
			p.FreeFiles[path] = true
			continue
		}
		addr, isAddr := lf.Addressed[path]
		if isAddr {
			p.KeepFiles[path] = "C07"
			for _, e := range f.Entries {
				key := path + "\x00" + e.ID()
				switch {
				case e.K <= addr[e.Test]:
					p.KeepTests[key] = "C07"
				case protected(e.Test) != "":
					p.KeepTests[key] = "C08"
				case p.HasRun:
					p.FreeTests[key] = true
				default:
					p.ObsoleteTests[key] = true
				}
			}
			continue
		}
		if !p.Dirs[filepath.Dir(path)] {
			p.KeepFiles[path] = "C09" // directory no test addressed
			for _, e := range f.Entries {
				p.KeepTests[path+"\x00"+e.ID()] = "C09"
			}
			continue
		}
		// unaddressed file in a visited directory
		nProt := 0
		for _, e := range f.Entries {
			if protected(e.Test) != "" {
				nProt++
			}
		}
		switch {
		case len(f.Entries) > 0 && nProt == len(f.Entries):
			p.KeepFiles[path] = "C08"
			for _, e := range f.Entries {
				p.KeepTests[path+"\x00"+e.ID()] = "C08"
			}
		case nProt > 0 || p.HasRun:
			p.FreeFiles[path] = true
		default:
			p.ObsoleteFiles[path] = true
		}
	}
	for path, s := range d.Solo {
		if s.Dirty {
			p.FreeFiles[path] = true
			continue
		}
		switch {
		case lf.AddressedSolo[path]:
			p.KeepFiles[path] = "C07"
		case !p.Dirs[filepath.Dir(path)]:
			p.KeepFiles[path] = "C09"
		case protected(s.Owner) != "":
			p.KeepFiles[path] = "C08"
		case p.HasRun:
			p.FreeFiles[path] = true
		default:
			p.ObsoleteFiles[path] = true
		}
	}
	for path := range d.Other {
		base := filepath.Base(path)
		if strings.Contains(base, ".snap") && p.Dirs[filepath.Dir(path)] {
			// a driver-made stale file with .snap in its name, directly in a visited directory
			if p.HasRun {
				p.FreeFiles[path] = true
			} else {
				p.ObsoleteFiles[path] = true
			}
			continue
		}
		p.KeepFiles[path] = "C09"
	}
	return p
}

// ApplyClean removes from the abstract disk what must have gone. Free items are
// resolved by the caller from the actual disk.
func (d *Disk) ApplyClean(p *CleanPlan) {
	if !p.Deletes {
		return
	}
	for path := range p.ObsoleteFiles {
		delete(d.Multi, path)
		delete(d.Solo, path)
		delete(d.Other, path)
	}
	for key := range p.ObsoleteTests {
		path, id := SplitKey(key)
		f := d.Multi[path]
		if f == nil {
			continue
		}
		out := f.Entries[:0]
		for _, e := range f.Entries {
			if e.ID() != id {
				out = append(out, e)
			}
		}
		f.Entries = out
	}
}

type dirtyInfo struct {
	ids   map[string]bool
	tests map[string]bool
}

// MaybeDirtyElsewhere: the id may belong to an unpredicted addressed file other than file.
func (p *CleanPlan) MaybeDirtyElsewhere(id, file string) bool {
	if p.WildIDs {
		return true
	}
	test := id
	if i := strings.LastIndex(id, " - "); i >= 0 {
		test = id[:i]
	}
	for f, di := range p.dirtyFiles {
		if f == file {
			continue
		}
		if di.ids[id] || di.tests[test] {
			return true
		}
	}
	return false
}

// MaybeDirty: the id may belong to an addressed file the model no longer predicts.
func (p *CleanPlan) MaybeDirty(id string) bool {
	if p.WildIDs {
		return true
	}
	if !p.DirtyAddressed {
		return false
	}
	if p.DirtyIDs[id] {
		return true
	}
	if i := strings.LastIndex(id, " - "); i >= 0 {
		return p.DirtyTests[id[:i]]
	}
	return true
}

// SplitKey splits file+"\x00"+id.
func SplitKey(k string) (string, string) {
	i := strings.Index(k, "\x00")
	return k[:i], k[i+1:]
}

func SortedKeys[V any](m map[string]V) []string {
	out := make([]string, 0, len(m))
	for k := range m {
		out = append(out, k)
	}
	sort.Strings(out)
	return out
}
