// Package model is the executable reference model of go-snaps used as the
// oracle of the simulation: a map from slots to formatted text, the mode table
// of property C05 and the obsolete-item rules of C07-C09. It never looks at
// go-snaps code; the formatted text comes from the third-party formatters the
// properties are stated relative to.
package model

import (
	"bytes"
	"encoding/json"
	"fmt"
	"path/filepath"
	"regexp"
	"strings"

	yaml "github.com/goccy/go-yaml"
	kpretty "github.com/kr/pretty"
	"github.com/tidwall/gjson"
	tpretty "github.com/tidwall/pretty"

	"verif/sim/scen"
)

// Text is the formatted value of a call. When matchers rewrite the document
// the model does not predict the result (matcher semantics are properties
// C15/C16, not claimed): the text is then opaque and identified by Key.
type Text struct {
	Known bool
	S     string
	Key   string
}

// Equal reports (equal, decidable).
func (a Text) Equal(b Text) (bool, bool) {
	if a.Known && b.Known {
		return a.S == b.S, true
	}
	if !a.Known && !b.Known {
		if a.Key == b.Key {
			return true, true
		}
		return false, false
	}
	return false, false
}

type Status int

const (
	StOK Status = iota
	StInvalid
	StMatcherFail
	StUnknown // the model does not predict this call (documented gaps of the matcher model)
)

type CallText struct {
	Status  Status
	Text    Text
	Failing []scen.MatcherSpec // matchers that must be named in the error
}

func valueKey(v scen.Value) string {
	b, _ := json.Marshal(v)
	return string(b)
}

// FormatCall computes the formatted text of a call from its arguments alone.
func FormatCall(c *scen.Call, cfg *scen.ConfigSpec) CallText {
	switch c.API {
	case scen.APISnapshot:
		parts := make([]string, len(c.Values))
		for i, v := range c.Values {
			parts[i] = kpretty.Sprint(v.Go())
		}
		return CallText{Text: Text{Known: true, S: strings.Join(parts, "\n")}}
	case scen.APISSnap:
		return CallText{Text: Text{Known: true, S: kpretty.Sprint(c.Values[0].Go())}}
	case scen.APIJSON, scen.APISJSON:
		return formatJSON(c, cfg)
	case scen.APIYAML:
		return formatYAML(c)
	}
	panic("unknown api " + c.API)
}

func jsonOpts(cfg *scen.ConfigSpec) *tpretty.Options {
	if cfg != nil && cfg.JSON2 != nil {
		// the last option given wins
		return &tpretty.Options{Width: cfg.JSON2.Width, Indent: cfg.JSON2.Indent, SortKeys: cfg.JSON2.SortKeys}
	}
	if cfg != nil && cfg.JSON != nil {
		return &tpretty.Options{Width: cfg.JSON.Width, Indent: cfg.JSON.Indent, SortKeys: cfg.JSON.SortKeys}
	}
	return &tpretty.Options{SortKeys: true, Indent: " "}
}

func formatJSON(c *scen.Call, cfg *scen.ConfigSpec) CallText {
	var doc []byte
	switch in := c.Values[0].Go().(type) {
	case string:
		if !gjson.Valid(in) || !json.Valid([]byte(in)) {
			if gjson.Valid(in) != json.Valid([]byte(in)) {
				return CallText{Status: StOK, Text: Text{Key: "json-ambiguous:" + in}}
			}
			return CallText{Status: StInvalid}
		}
		doc = []byte(in)
	case []byte:
		if !gjson.ValidBytes(in) || !json.Valid(in) {
			if gjson.ValidBytes(in) != json.Valid(in) {
				return CallText{Status: StOK, Text: Text{Key: "json-ambiguous:" + string(in)}}
			}
			return CallText{Status: StInvalid}
		}
		doc = in
	default:
		b, err := json.Marshal(in)
		if err != nil {
			return CallText{Status: StInvalid}
		}
		doc = b
	}
	var parsed any
	dec := json.NewDecoder(bytes.NewReader(doc))
	dec.UseNumber()
	_ = dec.Decode(&parsed)
	if len(c.Matchers) > 0 {
		if _, isMap := parsed.(map[string]any); !isMap {
			return CallText{Status: StUnknown}
		}
	}
	failing, effective := judgeMatchers(c.Matchers, parsed, "")
	if len(failing) > 0 {
		return CallText{Status: StMatcherFail, Failing: failing}
	}
	if len(effective) > 0 {
		kb, _ := json.Marshal(effective)
		return CallText{Text: Text{Key: "json:" + string(doc) + "|" + string(kb) + "|" + fmt.Sprint(jsonOpts(cfg))}}
	}
	out := string(tpretty.PrettyOptions(doc, jsonOpts(cfg)))
	return CallText{Text: Text{Known: true, S: strings.TrimSuffix(out, "\n")}}
}

func formatYAML(c *scen.Call) CallText {
	var doc []byte
	switch in := c.Values[0].Go().(type) {
	case string:
		doc = []byte(in)
	case []byte:
		doc = in
	default:
		// marshalled Go values: text not predicted (C18, not claimed)
		if len(c.Matchers) > 0 {
			return CallText{Status: StUnknown}
		}
		return CallText{Text: Text{Key: "yaml-go:" + valueKey(c.Values[0])}}
	}
	var parsed any
	if err := yaml.Unmarshal(doc, &parsed); err != nil {
		return CallText{Status: StInvalid}
	}
	if len(c.Matchers) > 0 {
		// matcher paths are only judged on single-document mappings
		if _, isMap := normalizeYAML(parsed).(map[string]any); !isMap || hasDocSeparator(string(doc)) {
			return CallText{Status: StUnknown}
		}
	}
	failing, effective := judgeMatchers(c.Matchers, deepNormalize(parsed), "$.")
	if len(failing) == 1 && failing[0].Kind == "unmodelled" {
		return CallText{Status: StUnknown}
	}
	if len(failing) > 0 {
		return CallText{Status: StMatcherFail, Failing: failing}
	}
	if len(effective) > 0 {
		kb, _ := json.Marshal(effective)
		return CallText{Text: Text{Key: "yaml:" + string(doc) + "|" + string(kb)}}
	}
	return CallText{Text: Text{Known: true, S: string(doc)}}
}

func hasDocSeparator(s string) bool {
	for _, l := range strings.Split(s, "\n") {
		if strings.HasPrefix(l, "---") || strings.HasPrefix(l, "...") {
			return true
		}
	}
	return false
}

func normalizeYAML(v any) any {
	switch t := v.(type) {
	case map[string]any:
		return t
	case map[any]any:
		m := map[string]any{}
		for k, x := range t {
			m[fmt.Sprint(k)] = x
		}
		return m
	case yaml.MapSlice:
		m := map[string]any{}
		for _, it := range t {
			m[fmt.Sprint(it.Key)] = it.Value
		}
		return m
	}
	return v
}

// lookup resolves a plain dotted object-key path.
func lookup(doc any, path string) (any, bool) {
	cur := doc
	for _, seg := range strings.Split(path, ".") {
		m, ok := normalizeYAML(cur).(map[string]any)
		if !ok {
			return nil, false
		}
		cur, ok = m[seg]
		if !ok {
			return nil, false
		}
	}
	return cur, true
}

func typeOK(v any, name string) bool {
	switch name {
	case "string":
		_, ok := v.(string)
		return ok
	case "float64":
		switch v.(type) {
		case json.Number, float64:
			return true
		}
		return false
	case "bool":
		_, ok := v.(bool)
		return ok
	case "map":
		_, ok := normalizeYAML(v).(map[string]any)
		return ok
	case "slice":
		_, ok := v.([]any)
		return ok
	}
	return false
}

// deepNormalize turns every mapping of a decoded YAML document into map[string]any.
func deepNormalize(v any) any {
	switch t := normalizeYAML(v).(type) {
	case map[string]any:
		out := map[string]any{}
		for k, x := range t {
			out[k] = deepNormalize(x)
		}
		return out
	case []any:
		out := make([]any, len(t))
		for i, x := range t {
			out[i] = deepNormalize(x)
		}
		return out
	default:
		return t
	}
}

// throughScalar: some proper prefix of the path exists and is not a mapping.
func throughScalar(doc any, path string) bool {
	cur := doc
	segs := strings.Split(path, ".")
	for _, seg := range segs[:len(segs)-1] {
		m, ok := cur.(map[string]any)
		if !ok {
			return true
		}
		next, ok := m[seg]
		if !ok {
			return false
		}
		cur = next
	}
	_, isMap := cur.(map[string]any)
	return !isMap
}

func setPath(doc any, path string, val any) {
	segs := strings.Split(path, ".")
	cur := doc
	for i, seg := range segs {
		m, ok := cur.(map[string]any)
		if !ok {
			return
		}
		if i == len(segs)-1 {
			m[seg] = val
			return
		}
		cur = m[seg]
	}
}

// judgeMatchers returns the matchers that must fail and the ones that take
// effect. Matchers apply left to right: an effective matcher replaces the value
// at its path by a placeholder (a string), which later matchers then see.
// Generators only produce cases where this is unambiguous (plain key paths into
// a mapping; Type only on JSON-compatible scalar kinds).
func judgeMatchers(ms []scen.MatcherSpec, doc any, prefix string) (failing, effective []scen.MatcherSpec) {
	for _, m := range ms {
		path := strings.TrimPrefix(m.Path, prefix)
		v, ok := lookup(doc, path)
		if !ok && prefix != "" && throughScalar(doc, path) {
			// YAML: a path that descends into a scalar is an error of its own kind, not
			// "path does not exist" - not modelled
			return []scen.MatcherSpec{{Kind: "unmodelled"}}, nil
		}
		if !ok {
			if !m.NoErrMiss {
				failing = append(failing, m)
			}
			continue
		}
		switch m.Kind {
		case "type":
			if !typeOK(v, m.TypeName) {
				failing = append(failing, m)
				continue
			}
		case "custom":
			if m.CustomErr != "" {
				failing = append(failing, m)
				continue
			}
		}
		setPath(doc, path, "<placeholder>")
		effective = append(effective, m)
	}
	return
}

// ---------------------------------------------------------------- location

type Loc struct {
	Path       string // multi-entry: the file; standalone: the generic pattern with %d
	Standalone bool
}

// Locate is the first sentence of property C11: the location of a snapshot from
// the options, the calling test file and the test name.
func Locate(cfg *scen.ConfigSpec, api string, site int, test string) Loc {
	dir := "__snapshots__"
	if cfg != nil && cfg.Dir != nil {
		dir = *cfg.Dir
	}
	if !filepath.IsAbs(dir) {
		dir = filepath.Join(scen.NominalDir, dir)
	}
	standalone := scen.Standalone(api)
	name := ""
	if cfg != nil && cfg.Filename != nil && *cfg.Filename != "" {
		name = *cfg.Filename
	} else if standalone {
		name = strings.ReplaceAll(test, "/", "_")
	} else {
		name = strings.TrimSuffix(scen.CallSites[site], ".go")
	}
	ext := ""
	if cfg != nil && cfg.Ext != nil {
		ext = *cfg.Ext
	}
	if ext == "" && api == scen.APISJSON {
		ext = ".json"
	}
	if standalone {
		name += "_%d"
	}
	return Loc{Path: filepath.Join(dir, name+".snap"+ext), Standalone: standalone}
}

// ---------------------------------------------------------------- modes

type Mode struct {
	CI     bool
	UpdVar string
	HasUpd bool
}

func ModeOf(env map[string]string) Mode {
	m := Mode{CI: ciDetected(env)}
	m.UpdVar, m.HasUpd = env["UPDATE_SNAPS"]
	return m
}

// ciDetected: "CI detected" as documented by github.com/gkampitakis/ciinfo, the
// third-party detector the property is relative to: never when CI=false; otherwise
// when one of the vendor-neutral variables exists (with any value, even empty) or a
// vendor's own variable does (only vendors whose rule is "the variable exists" are
// used by the generators).
var ciKeys = []string{"CI", "BUILD_ID", "BUILD_NUMBER", "CI_APP_ID", "CI_BUILD_ID", "CI_BUILD_NUMBER", "CI_NAME", "CONTINUOUS_INTEGRATION", "RUN_ID",
	"GITHUB_ACTIONS", "GITLAB_CI", "TRAVIS"}

func ciDetected(env map[string]string) bool {
	if env["CI"] == "false" {
		return false
	}
	for _, k := range ciKeys {
		if _, ok := env[k]; ok {
			return true
		}
	}
	return false
}

// MayUpdate / MayCreate: the table of property C05.
func (m Mode) MayUpdate(opt *bool) bool {
	if m.CI {
		return false
	}
	if opt != nil {
		return *opt
	}
	return m.UpdVar == "true"
}

func (m Mode) MayCreate(opt *bool) bool {
	if m.CI {
		return false
	}
	if opt != nil {
		return *opt
	}
	return true
}

func (m Mode) CleanDeletes() bool {
	return !m.CI && (m.UpdVar == "true" || m.UpdVar == "clean")
}

// ---------------------------------------------------------------- outcomes

const (
	Passed  = "passed"
	Added   = "added"
	Updated = "updated"
	Failed  = "failed"
)

var ansi = regexp.MustCompile("\x1b\\[[0-9;]*m")

func StripANSI(s string) string { return ansi.ReplaceAllString(s, "") }

// Decode turns the signals a call sent to its test into an outcome; "" plus a
// description when they are not exactly one of the four legal shapes.
func Decode(sig []scen.Signal) (string, string) {
	var errs, adds, upds, other, panics int
	for _, s := range sig {
		t := StripANSI(s.Text)
		switch s.Kind {
		case "error":
			errs++
		case "log":
			// "one `added` log, one `updated` log": the word decides, not the exact wording
			lt := strings.ToLower(t)
			switch {
			case strings.Contains(lt, "added") && !strings.Contains(lt, "updated"):
				adds++
			case strings.Contains(lt, "updated") && !strings.Contains(lt, "added"):
				upds++
			default:
				other++
			}
		case "panic":
			panics++
		default:
			other++
		}
	}
	switch {
	case panics > 0:
		return "", "panic: " + firstLine(sig)
	case errs == 0 && adds == 0 && upds == 0 && other == 0:
		return Passed, ""
	case errs == 1 && adds == 0 && upds == 0 && other == 0:
		return Failed, ""
	case errs == 0 && adds == 1 && upds == 0 && other == 0:
		return Added, ""
	case errs == 0 && adds == 0 && upds == 1 && other == 0:
		return Updated, ""
	}
	return "", fmt.Sprintf("signals: %d error, %d added, %d updated, %d other", errs, adds, upds, other)
}

func firstLine(sig []scen.Signal) string {
	for _, s := range sig {
		if s.Kind == "panic" {
			l := s.Text
			if i := strings.Index(l, "\n"); i >= 0 {
				l = l[:i]
			}
			return l
		}
	}
	return ""
}
