// Package build turns /repo's current working tree into the simulation test
// binaries: it rewrites the import paths of package snaps to the shim packages
// (function bodies are left untouched), maps the result over the originals with
// `go test -overlay`, hides the in-package tests, adds the black-box harness and
// compiles with an alternate module file. Nothing is written inside /repo.
package build

import (
	"bytes"
	"encoding/json"
	"fmt"
	"go/ast"
	"go/parser"
	"go/printer"
	"go/token"
	"os"
	"os/exec"
	"path/filepath"
	"sort"
	"strconv"
	"strings"

	"verif/sim/scen"
)

// Shimmed imports.
var shims = map[string]string{
	"os":            "verif/sim/simos",
	"sync":          "verif/sim/simsync",
	"path/filepath": "verif/sim/simfilepath",
	"go/parser":     "verif/sim/simparser",
	"io/ioutil":     "verif/sim/simioutil",
}

// Imports through which go-snaps code could reach the outside world behind the
// simulator's back (processes, sockets, raw system calls). Everything else of the
// standard library is either shimmed above or does no I/O and no blocking of its own.
var denied = map[string]bool{
	"os/exec": true, "net": true, "net/http": true, "plugin": true, "database/sql": true, "net/rpc": true, "C": true,
	// (syscall and x/sys/unix are not refused: they are commonly imported for types and
	// error numbers only, e.g. fi.Sys().(*syscall.Stat_t))
}

func allowedImport(p string) bool { return !denied[p] }

type Result struct {
	Dir      string            // scratch directory holding everything
	Bin      string            // world.test
	RaceBin  string            // world.race.test ("" if not built)
	TrimBin  string            // world.trim.test: the same binary built with -trimpath
	Sources  map[string][]byte // harness test sources by nominal path (copied into world roots)
	Rewrites int
}

type Error struct{ Msg string }

func (e *Error) Error() string { return e.Msg }

func errf(f string, a ...any) error { return &Error{fmt.Sprintf(f, a...)} }

// Build compiles the world binaries from repo's working tree. verifDir is the
// /verif checkout that holds sim/ and harness/.
func Build(repo, verifDir, scratch string, race bool) (*Result, error) {
	res := &Result{Dir: scratch, Sources: map[string][]byte{}}
	pkgDir := filepath.Join(repo, "snaps")
	overlay := map[string]string{}
	srcDir := filepath.Join(scratch, "src")
	if err := os.MkdirAll(srcDir, 0o755); err != nil {
		return nil, errf("%v", err)
	}
	// every non-test Go file of the module that imports a shimmed package is rewritten
	// (not only package snaps: file handling may be moved into an internal package)
	nfile := 0
	werr := filepath.WalkDir(repo, func(path string, d os.DirEntry, err error) error {
		if err != nil {
			return err
		}
		name := d.Name()
		if d.IsDir() {
			if path != repo && (strings.HasPrefix(name, ".") || name == "testdata" || name == "examples" || name == "vendor" || name == "__snapshots__") {
				return filepath.SkipDir
			}
			return nil
		}
		if !strings.HasSuffix(name, ".go") {
			return nil
		}
		if strings.HasSuffix(name, "_test.go") {
			if filepath.Dir(path) == pkgDir {
				overlay[path] = "" // in-package tests take *os.File etc.; not needed
			}
			return nil
		}
		out, n, err := rewriteFile(path)
		if err != nil {
			return err
		}
		if n == 0 {
			return nil
		}
		res.Rewrites += n
		nfile++
		dst := filepath.Join(srcDir, fmt.Sprintf("%03d_%s", nfile, name))
		if err := os.WriteFile(dst, out, 0o644); err != nil {
			return errf("%v", err)
		}
		overlay[path] = dst
		return nil
	})
	if werr != nil {
		if be, ok := werr.(*Error); ok {
			return nil, be
		}
		return nil, errf("walk %s: %v", repo, werr)
	}
	// harness
	mainSrc, err := os.ReadFile(filepath.Join(verifDir, "harness", "main_test.go.in"))
	if err != nil {
		return nil, errf("%v", err)
	}
	siteTmpl, err := os.ReadFile(filepath.Join(verifDir, "harness", "site_test.go.in"))
	if err != nil {
		return nil, errf("%v", err)
	}
	add := func(name string, b []byte) error {
		dst := filepath.Join(srcDir, name)
		if err := os.WriteFile(dst, b, 0o644); err != nil {
			return err
		}
		overlay[filepath.Join(pkgDir, name)] = dst
		res.Sources[filepath.Join(scen.NominalDir, name)] = b
		return nil
	}
	if err := add("zz_world_main_test.go", mainSrc); err != nil {
		return nil, errf("%v", err)
	}
	for i, file := range scen.CallSites {
		var tests strings.Builder
		if i == 0 {
			// declared first in the first file: the real runner executes it before all others
			fmt.Fprintf(&tests, "func Test0Warm(t *testing.T) { runTop(t, %q) }\n\n", "Test0Warm")
		}
		for _, tn := range scen.Pool[i] {
			fmt.Fprintf(&tests, "func %s(t *testing.T) { runTop(t, %q) }\n\n", tn, tn)
		}
		s := string(siteTmpl)
		s = strings.ReplaceAll(s, "__SITE__", strconv.Itoa(i))
		s = strings.ReplaceAll(s, "__SUFFIX__", string(rune('A'+i)))
		s = strings.ReplaceAll(s, "__TESTS__", tests.String())
		if err := add(file, []byte(s)); err != nil {
			return nil, errf("%v", err)
		}
	}
	ovb, _ := json.MarshalIndent(map[string]any{"Replace": overlay}, "", " ")
	ovPath := filepath.Join(scratch, "overlay.json")
	if err := os.WriteFile(ovPath, ovb, 0o644); err != nil {
		return nil, errf("%v", err)
	}
	// alternate module file
	gomod, err := os.ReadFile(filepath.Join(repo, "go.mod"))
	if err != nil {
		return nil, errf("%v", err)
	}
	alt := string(gomod) + "\nrequire verif v0.0.0\n\nreplace verif => " + verifDir + "\n"
	altPath := filepath.Join(scratch, "alt.mod")
	if err := os.WriteFile(altPath, []byte(alt), 0o644); err != nil {
		return nil, errf("%v", err)
	}
	sum, _ := os.ReadFile(filepath.Join(repo, "go.sum"))
	vsum, _ := os.ReadFile(filepath.Join(verifDir, "go.sum"))
	if err := os.WriteFile(filepath.Join(scratch, "alt.sum"), mergeSums(sum, vsum), 0o644); err != nil {
		return nil, errf("%v", err)
	}
	compile := func(out string, race bool) error {
		args := []string{"test", "-c", "-vet=off", "-tags", "verif", "-overlay", ovPath, "-modfile", altPath, "-o", out}
		if race {
			args = append(args, "-race")
		}
		if strings.HasSuffix(out, ".trim.test") {
			args = append(args, "-trimpath")
		}
		args = append(args, "./snaps")
		cmd := exec.Command("go", args...)
		cmd.Dir = repo
		cmd.Env = append(os.Environ(), "GOFLAGS=-mod=mod", "GOPROXY=off", "GOSUMDB=off", "GOTOOLCHAIN=local", "CGO_ENABLED=1")
		if !race {
			cmd.Env = append(cmd.Env, "CGO_ENABLED=0")
		}
		var buf bytes.Buffer
		cmd.Stdout, cmd.Stderr = &buf, &buf
		if err := cmd.Run(); err != nil {
			return errf("go %s: %v\n%s", strings.Join(args, " "), err, buf.String())
		}
		return nil
	}
	res.Bin = filepath.Join(scratch, "world.test")
	if err := compile(res.Bin, false); err != nil {
		return nil, err
	}
	if os.Getenv("VERIF_TRIMPATH") != "" {
		// experiments only (DESIGN.md 13.11): no registered check draws -trimpath lifetimes
		res.TrimBin = filepath.Join(scratch, "world.trim.test")
		if err := compile(res.TrimBin, false); err != nil {
			return nil, err
		}
	}
	if race {
		res.RaceBin = filepath.Join(scratch, "world.race.test")
		if err := compile(res.RaceBin, true); err != nil {
			return nil, err
		}
	}
	return res, nil
}

func mergeSums(a, b []byte) []byte {
	seen := map[string]bool{}
	var lines []string
	for _, l := range strings.Split(string(a)+"\n"+string(b), "\n") {
		l = strings.TrimSpace(l)
		if l == "" || seen[l] {
			continue
		}
		seen[l] = true
		lines = append(lines, l)
	}
	sort.Strings(lines)
	return []byte(strings.Join(lines, "\n") + "\n")
}

// rewriteFile rewrites shimmed import paths, keeping each import's local name.
func rewriteFile(path string) ([]byte, int, error) {
	fset := token.NewFileSet()
	f, err := parser.ParseFile(fset, path, nil, parser.ParseComments)
	if err != nil {
		return nil, 0, errf("parse %s: %v", path, err)
	}
	n := 0
	for _, imp := range f.Imports {
		p, err := strconv.Unquote(imp.Path.Value)
		if err != nil {
			return nil, 0, errf("%s: bad import %s", path, imp.Path.Value)
		}
		if to, ok := shims[p]; ok {
			local := p[strings.LastIndex(p, "/")+1:]
			if imp.Name != nil {
				local = imp.Name.Name
			}
			if local == "_" {
				continue
			}
			imp.Name = ast.NewIdent(local)
			imp.Path.Value = strconv.Quote(to)
			n++
			continue
		}
		if strings.HasPrefix(p, "verif/") {
			return nil, 0, errf("%s: imports %s", path, p)
		}
		if !allowedImport(p) {
			return nil, 0, errf("unmodelled import %q in %s: package snaps would reach outside the simulator (extend the shim list or the allow-list in /verif/internal/build)", p, path)
		}
	}
	if n == 0 {
		return nil, 0, nil
	}
	var buf bytes.Buffer
	if err := (&printer.Config{Mode: printer.UseSpaces | printer.TabIndent | printer.SourcePos, Tabwidth: 8}).Fprint(&buf, fset, f); err != nil {
		return nil, 0, errf("print %s: %v", path, err)
	}
	return buf.Bytes(), n, nil
}
