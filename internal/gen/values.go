// Package gen draws worlds (scenarios) from one PRNG.
package gen

import (
	"fmt"
	"strings"
	"unicode/utf8"

	"verif/sim/scen"
)

var words = []string{"alpha", "beta", "gamma", "delta", "hello world", "x", "snap", "0", "42", "line", "Test", "a b c", "ünï", "tab\there", "{}", "(1)", "- item", "-- x", "key: value", "<tag/>", "100%", "%d items", "a%20b %s"}

// plain: parseable by the structural checker (no line starting with '[', none
// equal to the terminator or its escape, no carriage return).
func plainString(r *scen.Rand) string {
	switch r.Intn(14) {
	case 0:
		return ""
	case 1:
		return " "
	case 2:
		return "\n"
	case 3:
		return words[r.Intn(len(words))] + "\n"
	case 4:
		return "\n" + words[r.Intn(len(words))]
	case 5:
		return words[r.Intn(len(words))] + "\n\n" + words[r.Intn(len(words))]
	case 6:
		return "  " + words[r.Intn(len(words))] + "  "
	case 7:
		return "\t"
	case 8:
		n := 2 + r.Intn(12)
		ls := make([]string, n)
		for i := range ls {
			ls[i] = fmt.Sprintf("%s %d", words[r.Intn(len(words))], r.Intn(5))
		}
		return strings.Join(ls, "\n")
	case 9:
		return words[r.Intn(len(words))] + "\n\n\n"
	}
	n := 1 + r.Intn(3)
	ls := make([]string, n)
	for i := range ls {
		ls[i] = words[r.Intn(len(words))]
	}
	return strings.Join(ls, "\n")
}

// Trigger classes of known findings (DESIGN.md 7).
type Avoid struct {
	EscapeToken bool // K1: a line equal to the escape token /-/-/-/
	HeaderLike  bool // K2: a line of the shape [name - n]
	BadUTF8     bool // F3
}

// header-like lines that the unchanged library provably ignores: the name is not
// the name of any test and does not start with Test, Benchmark or Fuzz
var harmlessNames = []string{"Other", "other thing", "Spec/x", "test"}

func headerName(r *scen.Rand, av Avoid) string {
	if av.HeaderLike {
		return harmlessNames[r.Intn(len(harmlessNames))]
	}
	return testNames[r.Intn(len(testNames))]
}

var testNames = []string{"TestA", "TestAB", "TestA1", "Test1", "TestB", "TestSub", "TestC", "TestC10", "TestOther", "Other", "TestA/sub", "TestB/s1"}

func framingString(r *scen.Rand, av Avoid) string {
	for {
		k := r.Intn(21)
		switch k {
		case 0:
			return "---"
		case 1:
			if av.EscapeToken {
				continue
			}
			return "/-/-/-/"
		case 2:
			return fmt.Sprintf("[%s - %d]", headerName(r, av), 1+r.Intn(12))
		case 3:
			return plainLine(r) + "\n---\n" + plainLine(r)
		case 4:
			if av.EscapeToken {
				continue
			}
			return plainLine(r) + "\n/-/-/-/\n" + plainLine(r)
		case 5:
			return plainLine(r) + "\n" + fmt.Sprintf("[%s - %d]", headerName(r, av), 1+r.Intn(12)) + "\n" + plainLine(r) + "\n---\n" + plainLine(r)
		case 16:
			// a blank line right before a header-like line, as inside a stored snapshot file
			return plainLine(r) + "\n\n" + fmt.Sprintf("[%s - %d]", headerName(r, av), 1+r.Intn(3)) + "\n" + plainLine(r) + "\n---\n"
		case 20:
			if av.BadUTF8 {
				continue
			}
			// a long single line with one byte that is not valid UTF-8
			return strings.Repeat(plainLine(r)+" ", 40) + string([]byte{0xff}) + strings.Repeat(" tail", 30)
		case 19:
			// one long line of mostly multi-byte characters with one ASCII letter in the middle
			return strings.Repeat("é", 2500+r.Intn(50)) + "A" + strings.Repeat("ü", 2500)
		case 17:
			// terminal output: colour sequences are bytes like any other
			return "\x1b[31m" + plainLine(r) + "\x1b[0m"
		case 18:
			return plainLine(r) + "\n\x1b[1;32mok\x1b[0m " + plainLine(r)
		case 6:
			return "---\n---"
		case 7:
			return "----"
		case 8:
			return " ---"
		case 9:
			return "--- "
		case 10:
			return strings.Repeat("x", 70000+r.Intn(100)) + string(rune('a'+r.Intn(26)))
		case 11:
			if av.BadUTF8 {
				continue
			}
			return "a" + string([]byte{0xff - byte(r.Intn(3))}) + "b"
		case 12:
			if av.BadUTF8 {
				continue
			}
			return string([]byte{0xc3, 0x28, byte('a' + r.Intn(3))}) + "\n" + string([]byte{0xfe})
		case 13:
			return "[not a header]"
		case 14:
			return "[x - y]\n---\n[z]"
		case 15:
			return "---\n"
		}
	}
}

func plainLine(r *scen.Rand) string { return words[r.Intn(len(words))] }

func structuredValue(r *scen.Rand) scen.Value {
	switch r.Intn(9) {
	case 7:
		// a byte slice given to MatchSnapshot is printed as a Go value, not as text
		return scen.Value{K: "b", S: []byte(words[r.Intn(len(words))])}
	case 0:
		return scen.Value{K: "i", I: r.Intn(1000) - 500}
	case 1:
		n := r.Intn(4)
		l := make([]string, n)
		for i := range l {
			l[i] = words[r.Intn(len(words))]
		}
		return scen.Value{K: "ss", L: l}
	case 2:
		m := map[string]int{}
		for i := 0; i < r.Intn(4); i++ {
			m[words[r.Intn(len(words))]] = r.Intn(10)
		}
		return scen.Value{K: "m", M: m}
	case 3:
		return scen.Value{K: "st", I: r.Intn(90), X: map[string]string{"name": words[r.Intn(len(words))]}, L: []string{"t1", words[r.Intn(len(words))]}}
	case 4:
		return scen.Value{K: "pst", I: r.Intn(90), X: map[string]string{"name": words[r.Intn(len(words))], "inner": words[r.Intn(len(words))]}}
	case 5:
		return scen.Value{K: "f", I: r.Intn(100)}
	case 6:
		return scen.Value{K: "bo", I: r.Intn(2)}
	}
	return scen.Value{K: "n"}
}

// Alphabet weights.
type Alpha struct{ Plain, Framing, Structured int }

func (a Alpha) total() int { return a.Plain + a.Framing + a.Structured }

func genString(r *scen.Rand, a Alpha, av Avoid) string {
	t := a.Plain + a.Framing
	if t == 0 || r.Intn(t) < a.Plain {
		return plainString(r)
	}
	return framingString(r, av)
}

func genValue(r *scen.Rand, a Alpha, av Avoid) scen.Value {
	t := a.total()
	if t > 0 && r.Intn(t) < a.Structured {
		return structuredValue(r)
	}
	v := scen.Str(genString(r, a, av))
	if r.Bool(0.12) {
		v.K = "ds" // the same text as a value of a defined string type
	}
	return v
}

// standalone values may contain anything, carriage returns included
func genStandaloneValue(r *scen.Rand, a Alpha, av Avoid) scen.Value {
	if r.Bool(0.2) {
		s := []string{"a\r\nb\r\n", "\r", "x\r", "<html>\r\n</html>", "no newline at end", "\n\n", "---\n[TestA - 1]\n---"}
		if av.HeaderLike {
			s = s[:len(s)-1]
		}
		return scen.Str(s[r.Intn(len(s))])
	}
	return genValue(r, a, av)
}

var jsonDocs = []string{
	`{"a":1,"b":"x"}`, `{"user":"mock","age":10,"tags":["a","b"],"nested":{"k":true,"z":null}}`, `[]`, `{}`, `[1,2,3]`, `"str"`, `12.50`, `null`,
	`{ "b" : 2 , "a" : 1 }`, `{"k":"\u00e9\n","é":[{"x":1},{"x":2}]}`, `{"long":[1,2,3,4,5,6,7,8,9,10,11,12,13,14,15,16,17,18,19,20,21,22,23,24,25,26,27,28,29,30]}`,
	`{"name":"n","created":"2024-01-01","count":3,"ok":true,"inner":{"id":7}}`,
}

var badJSON = []string{`{"a":`, `nope`, ``, `{"a":1}}`, `{'a':1}`}

func genJSONInput(r *scen.Rand, invalidP float64) scen.Value {
	if r.Bool(invalidP) {
		s := badJSON[r.Intn(len(badJSON))]
		if r.Bool(0.5) {
			return scen.Value{K: "b", S: []byte(s)}
		}
		return scen.Str(s)
	}
	switch r.Intn(6) {
	case 0:
		return scen.Value{K: "m", M: map[string]int{"b": r.Intn(5), "a": r.Intn(5), "c": 3}}
	case 1:
		return scen.Value{K: "st", I: r.Intn(50), X: map[string]string{"name": words[r.Intn(len(words))]}, L: []string{"q"}}
	case 2:
		return scen.Value{K: "b", S: []byte(jsonDocs[r.Intn(len(jsonDocs))])}
	}
	d := jsonDocs[r.Intn(len(jsonDocs))]
	if r.Bool(0.3) {
		d = strings.Replace(d, "1", fmt.Sprint(r.Intn(100)), 1)
	}
	return scen.Str(d)
}

var yamlDocs = []string{
	"a: 1\nb: x", "a: 1\nb: x\n", "user: \"mock\"\nage: 10\nemail: m@e.com", "# comment\nk: v # trailing\n", "list:\n  - a\n  - b\nname: n\n",
	"a: 1\n---\nb: 2\n", "k: |\n  line\n  more\nz: 1\n", "name: n\ncreated: 2024\nok: true\ninner:\n  id: 7\n", "x: [1, 2, 3]\ny: {a: b}\n", "just a string", "- 1\n- 2\n",
}

var badYAML = []string{"a: [1", "a: b: c: d", "\"unterminated", "a:\n\t- b"}

func genYAMLInput(r *scen.Rand, av Avoid, invalidP float64) scen.Value {
	if r.Bool(invalidP) {
		return scen.Str(badYAML[r.Intn(len(badYAML))])
	}
	if !av.HeaderLike && r.Bool(0.05) {
		return scen.Str("[TestA - 1]")
	}
	if r.Bool(0.1) {
		return scen.Value{K: "m", M: map[string]int{"b": r.Intn(5), "a": 1}}
	}
	d := yamlDocs[r.Intn(len(yamlDocs))]
	if r.Bool(0.3) {
		d = strings.Replace(d, "1", fmt.Sprint(r.Intn(100)), 1)
	}
	if r.Bool(0.3) {
		return scen.Value{K: "b", S: []byte(d)}
	}
	return scen.Str(d)
}

// mutate returns a value whose formatted text differs from v's (for the
// string kinds it is biased to the places where conflation can happen).
func mutateString(r *scen.Rand, s string, av Avoid, multi bool) string {
	for tries := 0; tries < 20; tries++ {
		var t string
		if !multi && r.Bool(0.15) {
			// standalone files keep carriage returns: line-ending variants are distinct values
			if strings.Contains(s, "\r\n") {
				t = strings.ReplaceAll(s, "\r\n", "\n")
			} else if strings.Contains(s, "\n") {
				t = strings.ReplaceAll(s, "\n", "\r\n")
			} else {
				t = s + "\r"
			}
			if t != s {
				return t
			}
		}
		kind := r.Intn(12)
		if !av.BadUTF8 && !utf8.ValidString(s) && r.Bool(0.25) {
			// the raw byte against its usual spelling in text
			for i := 0; i < len(s); i++ {
				if s[i] >= 0xf5 || s[i] == 0xc0 || s[i] == 0xc1 {
					return s[:i] + fmt.Sprintf("\\x%02x", s[i]) + s[i+1:]
				}
			}
		}
		if len(s) > 4096 && strings.Contains(s, "éA") && r.Bool(0.7) {
			return strings.Replace(s, "éA", "éB", 1) // the one ASCII letter after thousands of multi-byte characters
		}
		if strings.Contains(s, "\x1b[") && r.Bool(0.5) {
			// only the colour changes
			if strings.Contains(s, "\x1b[31m") {
				return strings.Replace(s, "\x1b[31m", "\x1b[32m", 1)
			}
			if strings.Contains(s, "\x1b[1;32m") {
				return strings.Replace(s, "\x1b[1;32m", "\x1b[1;31m", 1)
			}
			return strings.Replace(s, "\x1b[32m", "\x1b[31m", 1)
		}
		if len(s) > 8000 {
			// very long lines: small edits only (a full rewrite makes the library's
			// character diff burn seconds of CPU per call)
			kind = []int{0, 1, 2, 4, 4, 10}[r.Intn(6)]
		}
		switch kind {
		case 0:
			t = s + "\n"
		case 1:
			t = s + " "
		case 2:
			t = "\n" + s
		case 3:
			t = strings.TrimSuffix(s, "\n")
		case 4:
			if len(s) > 0 {
				i := r.Intn(len(s))
				b := []byte(s)
				if b[i] == 'x' {
					b[i] = 'y'
				} else if b[i] != '\n' && b[i] < 0x80 {
					b[i] = 'x'
				}
				t = string(b)
			}
		case 5:
			if !av.EscapeToken {
				t = strings.ReplaceAll(s, "---", "/-/-/-/")
			}
		case 6:
			if !av.BadUTF8 {
				b := []byte(s)
				for i := range b {
					if b[i] >= 0xfd {
						b[i]--
						break
					}
				}
				t = string(b)
			}
		case 7:
			t = s + "\n" + plainLine(r)
		case 8:
			t = plainString(r)
		case 9:
			t = strings.ToUpper(s)
		case 10:
			t = " " + s
		case 11:
			ls := strings.Split(s, "\n")
			if len(ls) > 1 {
				t = strings.Join(ls[1:], "\n")
			}
		}
		if t == s {
			continue
		}
		if multi && (strings.Contains(t, "\r")) {
			continue
		}
		if av.HeaderLike && headerLike(t) {
			continue
		}
		return t
	}
	return s + "!"
}

func headerLike(s string) bool {
	for _, l := range strings.Split(s, "\n") {
		if strings.HasPrefix(l, "[") && strings.HasSuffix(l, "]") && strings.Contains(l, " - ") {
			if strings.HasPrefix(l, "[Test") || strings.HasPrefix(l, "[Benchmark") || strings.HasPrefix(l, "[Fuzz") {
				return true
			}
		}
	}
	return false
}
