package gen

import "verif/sim/scen"

var (
	envOff      = map[string]string{}
	envCI       = map[string]string{"CI": "true"}
	envUpd      = map[string]string{"UPDATE_SNAPS": "true"}
	envClean    = map[string]string{"UPDATE_SNAPS": "clean"}
	envOther    = map[string]string{"UPDATE_SNAPS": "1"}
	envCIUpd    = map[string]string{"CI": "true", "UPDATE_SNAPS": "true"}
	envCIClean  = map[string]string{"CI": "true", "UPDATE_SNAPS": "clean"}
	envCIfalse  = map[string]string{"CI": "false"}
	envVendor   = map[string]string{"GITHUB_ACTIONS": "true", "UPDATE_SNAPS": "true"}
	envNeutral  = map[string]string{"RUN_ID": "", "UPDATE_SNAPS": "clean"}
	envNotCI    = map[string]string{"CI": "false", "TRAVIS": "true", "UPDATE_SNAPS": "clean"}
	allEnvs     = []map[string]string{envOff, envCI, envUpd, envClean, envOther, envCIUpd, envCIClean, envCIfalse, envVendor, envNeutral, envNotCI}
	readOnlyEnv = []map[string]string{envOff, envCI, envClean, envOther, envCIUpd}
)

func allAPIs(multi, solo int) map[string]int {
	return map[string]int{scen.APISnapshot: multi * 3, scen.APIJSON: multi, scen.APIYAML: multi, scen.APISSnap: solo, scen.APISJSON: solo}
}

func base(prop string) *Params {
	return &Params{Prop: prop, Family: prop, Alpha: Alpha{Plain: 6, Framing: 3, Structured: 2}, APIw: allAPIs(3, 1),
		MinTests: 1, MaxTests: 4, MaxCalls: 4, MaxDepth: 2, SubP: 0.35, CfgP: 0.4, NCfg: 3, UpdateOpt: 0, JSONOpt: 0.2, SharedFileP: 0.5,
		ManyCallsP: 0.1, RecordCount: []int{1}, Counts: []int{1}, L0P: 0.3, ExtraLifeP: 0.2, PreDeleteP: 0.08}
}

// Preset returns the generator parameters of a property family. variant
// selects sub-families where a property has several workloads.
func Preset(prop string, adversarial bool, r *scen.Rand) *Params {
	p := base(prop)
	if adversarial {
		p.Config = "adversarial"
	} else {
		p.Config = "trigger-free"
		p.Avoid = Avoid{EscapeToken: true, HeaderLike: true, BadUTF8: true}
	}
	switch prop {
	case "C01":
		p.PreLinkP = 0.06 // a snapshot file that is a symbolic link to a golden file kept elsewhere
		p.Alpha = Alpha{Plain: 4, Framing: 5, Structured: 2}
		p.Envs = []map[string]string{envCI, envOff, envUpd, envClean}
		// (one world in four changes some values next to the unchanged ones: a neighbour that
		// rewrites the shared file, concurrently in tasks mode, is no reason for a recorded and
		// unchanged call to fail)
		p.EditKinds = []string{"shuffle", "shuffle", "shuffle", "value"}
		p.EditValueP = 0.3
		p.TasksP = 0.2
		p.FaultP = 0.06 // (a read-only snapshot file is no reason for a replay to fail)
		p.RecordTasksP = 0.25
		p.RecordCount = []int{1, 1, 2}
		p.Counts = []int{1, 1, 2, 3} // replays with -count: every re-execution addresses the same slots
		p.PreEditP = 0.08
		p.ManyCallsP = 0.2
		// some replays go through a Clean (sort / prune rewrite) first: "for all
		// pre-existing well-formed contents of the snapshot file"
		p.CleanP = 0.35
		p.SortP = 0.7
		p.ReplayP = 0.6
	case "C02":
		p.PreLinkP = 0.05 // a snapshot file that is a symbolic link to a golden file kept elsewhere
		p.Counts = []int{1, 1, 1, 2, 3}
		p.Alpha = Alpha{Plain: 5, Framing: 5, Structured: 2}
		// mostly environments in which nothing may be updated; with UPDATE_SNAPS=true the calls
		// through a Config with Update(false) are still read-only, next to neighbours that rewrite
		p.Envs = append(append([]map[string]string{}, readOnlyEnv...), envUpd, envVendor)
		p.UpdateOpt = 0.35
		p.EditKinds = []string{"value"}
		p.EditValueP = 0.6
		p.TasksP = 0.25 // a mismatch must not pass silently under concurrency either
		p.FaultP = 0.06 // ... nor next to disk faults, nor against a read-only file
		p.ReplayP = 0.3
	case "C03":
		p.PreLinkP = 0.05 // a snapshot file that is a symbolic link to a golden file kept elsewhere
		p.FaultP = 0.08   // a few worlds with disk faults: the narrow oracles of DESIGN.md 5.3 apply to the calls they hit
		p.NonTestNames = true
		p.Alpha = Alpha{Plain: 8, Framing: 1, Structured: 2}
		p.Envs = []map[string]string{envOff, envCI, envUpd, envClean}
		p.EditKinds = []string{"value", "shuffle", "addcall", "addtest", "removecall", "skip"}
		p.EditValueP = 0.25
		p.CleanP = 0.25 // Clean's rewrite of a file is a rewrite too: the slots it does not remove keep their values
		p.RunP = 0.2
		p.Counts = []int{1, 2, 3}
		p.RecordCount = []int{1, 2, 3}
		p.ManyCallsP = 0.3
		p.MaxTests = 5
		p.SubP = 0.5
		p.MaxDepth = 3
		p.MatcherP = 0.15
		p.BadMatcherP = 0.6
		p.InvalidP = 0.08
		p.TasksP = 0.25
		p.ReplayP = 0.8
	case "C04":
		p.PreLinkP = 0.06 // a snapshot file that is a symbolic link to a golden file kept elsewhere
		p.FaultP = 0.08   // a few worlds with disk faults: the narrow oracles of DESIGN.md 5.3 apply to the calls they hit
		p.Counts = []int{1, 1, 1, 2, 3}
		p.Alpha = Alpha{Plain: 7, Framing: 3, Structured: 2}
		p.Envs = []map[string]string{envUpd, envUpd, envOff}
		p.UpdateOpt = 0.4
		p.EditKinds = []string{"value"}
		p.EditValueP = 0.4
		p.APIw = allAPIs(3, 2)
		p.TasksP = 0.2 // updates from parallel tests must converge as well
		p.PreEditP = 0.08
		p.ReplayP = 1
	case "C05":
		p.PreLinkP = 0.05 // a snapshot file that is a symbolic link to a golden file kept elsewhere
		p.FaultP = 0.08   // a few worlds with disk faults: the narrow oracles of DESIGN.md 5.3 apply to the calls they hit
		p.Alpha = Alpha{Plain: 9, Framing: 1, Structured: 1}
		p.Envs = allEnvs
		p.UpdateOpt = 0.6
		p.EditKinds = []string{"value", "removecall", "addcall", "removetest"}
		p.EditValueP = 0.4
		p.CleanP = 0.6
		p.SortP = 0.4
		p.PreFilesP = 0.3
		p.PreCorruptP = 0.1 // on CI nothing is written, whatever state the files are in
		p.APIw = allAPIs(3, 2)
		p.ReplayP = 0.3
	case "C06":
		p.Alpha = Alpha{Plain: 9, Framing: 1, Structured: 1}
		p.Envs = []map[string]string{envOff, envUpd, envUpd, envCI}
		p.UpdateOpt = 0.3
		p.EditKinds = []string{"value", "addcall", "addtest", "skip"}
		p.EditValueP = 0.5
		p.MinTests = 2
		p.MaxTests = 5
		p.MaxCalls = 3
		p.SubP = 0.15
		p.SharedFileP = 0.8
		p.CfgP = 0.6
		p.TasksP = 1
		p.FaultP = 0.12
		p.RaceP = 0.5
		p.L0P = 0.1
		p.ReplayP = 0.9
		p.APIw = allAPIs(4, 2)
		p.RecordTasksP = 0.3 // first use of files and directories by several tests at once
	case "C07":
		p.PreLinkP = 0.05 // a snapshot file that is a symbolic link to a golden file kept elsewhere
		p.FaultP = 0.08   // a few worlds with disk faults: the narrow oracles of DESIGN.md 5.3 apply to the calls they hit
		p.NonTestNames = true
		p.Alpha = Alpha{Plain: 9, Framing: 1, Structured: 1}
		p.Envs = allEnvs
		p.EditKinds = []string{"value", "removecall", "removetest", "addcall", "retarget"}
		p.EditValueP = 0.1
		p.Counts = []int{1, 2, 3}
		p.RunP = 0.4
		p.TasksP = 0.2       // registrations made by parallel tests count as well
		p.PreCorruptP = 0.12 // a damaged neighbour file must not cost an addressed entry of another file
		p.InvalidP = 0.06    // a call that fails before anything is stored still counts as an execution of its test
		p.CleanP = 1
		p.SortP = 0.4
		p.PreFilesP = 0.4
		p.ReplayP = 0.8
		p.APIw = allAPIs(3, 2)
	case "C08":
		p.Counts = []int{1, 1, 1, 2, 3}
		p.Alpha = Alpha{Plain: 10, Framing: 0, Structured: 1}
		p.Envs = []map[string]string{envOff, envClean, envUpd, envCI}
		p.EditKinds = []string{"skip", "removecall"}
		p.TasksP = 0.3  // skips recorded by tests that run concurrently
		p.FaultP = 0.08 // a file that cannot be written (or read) excuses that file only
		p.RunP = 0.6
		p.CleanP = 1
		p.SortP = 0.3
		p.MinTests = 2
		p.MaxTests = 5
		p.SubP = 0.6
		p.ReplayP = 0.8
		p.APIw = allAPIs(3, 2)
	case "C09":
		p.PreLinkP = 0.05 // a snapshot file that is a symbolic link to a golden file kept elsewhere
		p.NonTestNames = true
		p.Alpha = Alpha{Plain: 10, Framing: 0, Structured: 1}
		p.Envs = allEnvs
		p.EditKinds = []string{"removecall", "removetest", "removesub", "skip", "addcall", "addtest", "retarget"}
		p.FaultP = 0.1    // a directory that cannot be listed excuses that directory only
		p.InvalidP = 0.06 // calls that fail before anything is written: a registered file that never comes into being
		p.UpdateOpt = 0.2
		p.PreCorruptP = 0.06
		p.Counts = []int{1, 2, 3}
		p.CleanP = 1
		p.SortP = 0.5
		p.PreFilesP = 0.7
		p.MinTests = 2
		p.MaxTests = 5
		p.ReplayP = 0.5
		p.CleanAgainP = 0.3
		p.APIw = allAPIs(3, 2)
	case "C10":
		p.PreLinkP = 0.05 // a snapshot file that is a symbolic link to a golden file kept elsewhere
		p.FaultP = 0.08   // a few worlds with disk faults: the narrow oracles of DESIGN.md 5.3 apply to the calls they hit
		p.Counts = []int{1, 1, 1, 2, 3}
		p.Alpha = Alpha{Plain: 6, Framing: 4, Structured: 1}
		p.Envs = []map[string]string{envOff, envClean, envUpd}
		p.EditKinds = []string{"removecall", "removetest", "shuffle", "skip", "retarget", "addcall", "addtest"}
		p.RunP = 0.25
		p.RecordTasksP = 0.6
		p.PreCorruptP = 0.08 // what Clean reads from a damaged file must not leak into another file
		p.PreEditP = 0.12    // blank lines a user added: a rewrite gets shorter than the file was
		p.TasksP = 0.2       // Clean after tests that ran in parallel (what it reads must be what is on disk)
		p.CleanP = 1
		p.SortP = 0.7
		p.MinTests = 2
		p.MaxTests = 5
		p.ManyCallsP = 0.3
		p.ReplayP = 1
		p.CleanAgainP = 0.6
		p.APIw = allAPIs(4, 1)
		p.NonTestNames = true
	case "C12":
		p.Alpha = Alpha{Plain: 9, Framing: 1, Structured: 1}
		p.CfgP = 0.9
		p.NCfg = 3
		p.APIw = allAPIs(2, 3)
		p.Envs = []map[string]string{envOff, envUpd}
		p.EditKinds = []string{"value"}
		p.EditValueP = 0.2
		p.TasksP = 0.4
		p.RaceP = 1
		p.JSONOpt = 0.4
		p.UpdateOpt = 0.3
		p.FaultP = 0.15 // a failing call must not change what later calls through the same Config do
	case "C17":
		p.Counts = []int{1, 1, 1, 2, 3}
		p.APIw = map[string]int{scen.APIJSON: 4, scen.APIYAML: 3, scen.APISJSON: 3, scen.APISnapshot: 1}
		p.MatcherP = 0.8
		p.BadMatcherP = 0.5
		p.Envs = allEnvs
		p.UpdateOpt = 0.3
		p.FaultP = 0.15 // a failing matcher is reported whatever state the disk is in
		p.TasksP = 0.2  // matcher failures of parallel tests are reported to the right test
		p.RaceP = 0.6
		p.EditKinds = []string{"value"}
		p.EditValueP = 0.4
		p.ReplayP = 0.5
	case "C19":
		p.PreLinkP = 0.1 // a snapshot file that is a symbolic link to a golden file kept elsewhere
		p.FaultP = 0.08  // a few worlds with disk faults: the narrow oracles of DESIGN.md 5.3 apply to the calls they hit
		p.APIw = map[string]int{scen.APISSnap: 5, scen.APISJSON: 3, scen.APISnapshot: 1}
		p.Alpha = Alpha{Plain: 4, Framing: 5, Structured: 2}
		p.Envs = allEnvs
		p.UpdateOpt = 0.3
		p.EditKinds = []string{"value"}
		p.EditValueP = 0.5
		p.Counts = []int{1, 2, 3}
		p.RecordCount = []int{1, 2, 3}
		p.MaxCalls = 5
		p.TasksP = 0.25 // standalone snapshots taken by parallel tests
		p.RaceP = 0.6
		p.ReplayP = 0.9
	case "C20":
		p.Alpha = Alpha{Plain: 8, Framing: 2, Structured: 2}
		p.Envs = allEnvs
		p.UpdateOpt = 0.3
		p.EditKinds = []string{"value", "removecall", "addcall", "skip", "retarget"}
		p.EditValueP = 0.4
		p.Counts = []int{1, 1, 2, 3}
		p.MaxTests = 6
		p.MaxCalls = 8
		p.InvalidP = 0.15
		p.MatcherP = 0.2
		p.BadMatcherP = 0.4
		p.CleanP = 0.9
		p.SortP = 0.3
		p.TasksP = 0.3
		p.FaultP = 0.5
		p.KillP = 0.25
		p.PreCorruptP = 0.15
		p.ReplayP = 0.5
		p.CleanAgainP = 0.5
	}
	_ = r
	return p
}

// Enlarge returns a copy of the parameters with deeper bounds (thorough tier): more
// tests, more calls per test, deeper nesting, more Configs, more lifetimes, higher -count.
func Enlarge(p *Params) *Params {
	q := *p
	q.MaxTests = p.MaxTests + 4
	if q.MaxTests > 12 {
		q.MaxTests = 12
	}
	q.MinTests = p.MinTests + 1
	q.MaxCalls = p.MaxCalls*2 + 2
	q.MaxDepth = p.MaxDepth + 1
	q.NCfg = 5
	q.ManyCallsP = p.ManyCallsP + 0.2
	q.ExtraLifeP = 0.6
	if len(p.Counts) > 1 {
		q.Counts = append(append([]int{}, p.Counts...), 4, 5)
	}
	if len(p.RecordCount) > 1 {
		q.RecordCount = append(append([]int{}, p.RecordCount...), 4)
	}
	q.Family = p.Family + "-large"
	return &q
}
