package gen

import (
	"fmt"

	"verif/internal/check"
	"verif/sim/scen"
)

// The mode table of property C05, enumerated completely.
var (
	tCI       = []string{"off", "on", "vendor", "neutral", "false-overrides"}
	tUpdate   = []string{"unset", "true", "false"}
	tUpdVar   = []string{"unset", "true", "clean", "false", "1", "TRUE"}
	tState    = []string{"missing", "equal", "different"}
	tClean    = []string{"none", "plain", "sort"}
	tObsolete = []string{"absent", "present"}
)

func TableSize() int {
	return len(tCI) * len(tUpdate) * len(tUpdVar) * len(scen.APIs) * len(tState) * len(tClean) * len(tObsolete)
}

type Cell struct {
	CI, Update, UpdVar, API, State, Clean, Obsolete string
}

func CellOf(i int) Cell {
	pick := func(l []string) string {
		v := l[i%len(l)]
		i /= len(l)
		return v
	}
	return Cell{CI: pick(tCI), Update: pick(tUpdate), UpdVar: pick(tUpdVar), API: pick(scen.APIs), State: pick(tState), Clean: pick(tClean), Obsolete: pick(tObsolete)}
}

func (c Cell) String() string {
	return fmt.Sprintf("CI=%s Update=%s UPDATE_SNAPS=%s api=%s entry=%s clean=%s obsolete=%s", c.CI, c.Update, c.UpdVar, c.API, c.State, c.Clean, c.Obsolete)
}

func cellValue(api string, variant int) scen.Value {
	switch api {
	case scen.APIJSON, scen.APISJSON:
		return scen.Str(fmt.Sprintf(`{"a":%d,"b":"x"}`, variant))
	case scen.APIYAML:
		return scen.Str(fmt.Sprintf("a: %d\nb: x\n", variant))
	}
	return scen.Str(fmt.Sprintf("value %d\nsecond line", variant))
}

// TableWorld builds the two-lifetime world of cell i: L1 prepares the disk off
// CI, L2 is the cell with its real process environment.
func TableWorld(seed uint64, i int) *check.World {
	c := CellOf(i)
	w := &check.World{Prop: "C05", Family: "C05-table", Seed: seed, Index: i, Config: "trigger-free", Note: c.String()}
	var cfg scen.ConfigSpec
	switch c.Update {
	case "true":
		cfg.Update = bp(true)
	case "false":
		cfg.Update = bp(false)
	}
	cfgs := []scen.ConfigSpec{cfg}
	mk := func(id int, api string, variant int) scen.Step {
		return scen.Step{Kind: "call", Call: &scen.Call{ID: id, API: api, Cfg: 0, Values: []scen.Value{cellValue(api, variant)}}}
	}
	// L1: an anchor entry of the target test (so that the file is addressed in L2
	// whatever the cell), the target slot unless it must be missing, stale items
	target := &scen.TestNode{Name: "TestA", Site: 0}
	target.Steps = append(target.Steps, mk(1, scen.APISnapshot, 7))
	if scen.Standalone(c.API) {
		target.Steps = append(target.Steps, mk(4, c.API, 9))
	}
	if c.State != "missing" {
		target.Steps = append(target.Steps, mk(2, c.API, 1))
	}
	prog1 := []*scen.TestNode{target}
	if c.Obsolete == "present" {
		prog1 = append(prog1, &scen.TestNode{Name: "TestAB", Site: 0, Steps: []scen.Step{mk(10, scen.APISnapshot, 3), mk(11, scen.APISSnap, 4), mk(12, scen.APISnapshot, 5)}})
	}
	// the preparing lifetime uses a config without the Update option: it must be allowed to create
	l1cfgs := []scen.ConfigSpec{{}}
	w.Lifetimes = append(w.Lifetimes, &scen.Lifetime{Mode: "runner", Count: 1, Env: map[string]string{}, Configs: l1cfgs, Tests: prog1, Note: "prepare"})
	// L2: the cell
	env := map[string]string{}
	switch c.CI {
	case "on":
		env["CI"] = "true"
	case "vendor": // a CI vendor's own variable, CI itself unset
		env["GITHUB_ACTIONS"] = "true"
	case "neutral": // a vendor-neutral variable with an arbitrary value
		env["BUILD_NUMBER"] = "17"
	case "false-overrides": // CI=false wins over everything else: not on CI
		env["CI"] = "false"
		env["GITLAB_CI"] = "1"
	}
	if c.UpdVar != "unset" {
		env["UPDATE_SNAPS"] = c.UpdVar
	}
	variant := 1
	if c.State == "different" {
		variant = 2
	}
	t2 := &scen.TestNode{Name: "TestA", Site: 0}
	t2.Steps = append(t2.Steps, mk(1, scen.APISnapshot, 7))
	if scen.Standalone(c.API) {
		t2.Steps = append(t2.Steps, mk(4, c.API, 9))
	}
	t2.Steps = append(t2.Steps, mk(2, c.API, variant))
	l2 := &scen.Lifetime{Mode: "runner", Count: 1, Env: env, Configs: cfgs, Tests: []*scen.TestNode{t2}, Note: "cell: " + c.String()}
	switch c.Clean {
	case "plain":
		l2.Clean = &scen.CleanSpec{}
	case "sort":
		l2.Clean = &scen.CleanSpec{Opts: true, Sort: true}
	}
	w.Lifetimes = append(w.Lifetimes, l2)
	return w
}
