package gen

import (
	"bytes"
	"encoding/json"
	"fmt"
	"regexp"
	"strings"

	"verif/internal/check"
	"verif/sim/scen"
)

// Params steer the one parametric world generator; every property family is a
// preset (presets.go).
type Params struct {
	Prop   string
	Family string
	Avoid  Avoid
	Config string // trigger-free | adversarial

	Alpha       Alpha
	APIw        map[string]int // API weights
	MinTests    int
	MaxTests    int
	MaxCalls    int
	MaxDepth    int
	SubP        float64
	CfgP        float64 // probability that a call goes through a Config
	NCfg        int
	UpdateOpt   float64 // probability that a config carries an Update option
	JSONOpt     float64
	SharedFileP float64 // config with Filename (several tests share one file)
	MatcherP    float64
	BadMatcherP float64
	InvalidP    float64
	ManyCallsP  float64 // tests with 10+ calls

	L0P          float64 // an unrelated program is recorded first
	RecordTasksP float64
	RecordCount  []int

	// second lifetime
	Envs       []map[string]string // environment choices for L2
	EditValueP float64
	EditKinds  []string // value, removecall, removetest, addcall, renametest, skip
	Counts     []int
	RunP       float64
	CleanP     float64
	SortP      float64
	TasksP     float64 // L2 in tasks mode
	RaceP      float64
	FaultP     float64
	KillP      float64
	PreFilesP  float64
	// third lifetime
	ReplayP      float64 // read-only replay of L2's values
	CleanAgainP  float64
	PreDeleteP   float64 // a standalone file is removed by hand before a lifetime
	PreCorruptP  float64 // a snapshot file is damaged (storage fault) before a lifetime
	PreEditP     float64 // a snapshot file gets a harmless hand edit (extra blank lines) before a lifetime
	PreLinkP     float64 // a snapshot file becomes a symbolic link to the same content kept elsewhere
	TrimpathP    float64 // some lifetimes run the -trimpath build (experiments only, 0 in every preset: DESIGN.md 13.11)
	ExtraLifeP   float64 // a further edited run with another environment before the closing replay
	NonTestNames bool
}

type builder struct {
	r           *scen.Rand
	p           *Params
	nextID      int
	cfgs        []scen.ConfigSpec
	solo        map[string]bool  // custom standalone file names already given to a test
	shuffleNext int              // -test.shuffle seed for the lifetime that runs the edited program
	prev        []*scen.TestNode // the program the current one was edited from (see hotCalls)
}

func pickW(r *scen.Rand, w map[string]int) string {
	t := 0
	for _, k := range scen.APIs {
		t += w[k]
	}
	if t == 0 {
		return scen.APISnapshot
	}
	x := r.Intn(t)
	for _, k := range scen.APIs {
		x -= w[k]
		if x < 0 {
			return k
		}
	}
	return scen.APISnapshot
}

func sp(s string) *string { return &s }
func bp(b bool) *bool     { return &b }

func (b *builder) genConfigs() {
	r, p := b.r, b.p
	n := 0
	if p.NCfg > 0 {
		n = 1 + r.Intn(p.NCfg)
	}
	// (the last three are other spellings of directories already in the list)
	dirs := []string{"__snapshots__", "snaps_dir", "nested/deep/__snapshots__", "/abs/snapdir", "../up/__snapshots__", ".snapshots", "__snaps[v2]__",
		"./__snapshots__", "nested/../snaps_dir", scen.NominalDir + "/__snapshots__",
		"linked_snaps", "linked_snaps/deep"} // (a symbolic link to another directory, and a not yet existing directory below it, see World)
	names := []string{"shared", "custom_name", "zz_world_a_test", "my.snap.file", "data", "http_2"}
	exts := []string{".txt", ".json", ".snap", ".yaml", "", "json", ".golden.txt"}
	for i := 0; i < n; i++ {
		var c scen.ConfigSpec
		if r.Bool(0.5) {
			c.Dir = sp(dirs[r.Intn(len(dirs))])
		}
		if r.Bool(p.SharedFileP) {
			// distinct names: two configs naming the same standalone file would make two
			// tests share one ordinal counter (excluded, DESIGN.md 12)
			k := r.Intn(len(names))
			c.Filename = sp(names[k])
			names = append(names[:k:k], names[k+1:]...)
		}
		if r.Bool(0.35) {
			c.Ext = sp(exts[r.Intn(len(exts))])
		}
		if r.Bool(p.UpdateOpt) {
			c.Update = bp(r.Bool(0.5))
			if r.Bool(0.25) {
				c.Update2 = bp(r.Bool(0.5)) // a base option list plus an override
			}
		}
		if r.Bool(p.JSONOpt) {
			c.JSON = &scen.JSONOpts{Width: []int{0, 20, 80}[r.Intn(3)], Indent: []string{" ", "  ", "\t", ""}[r.Intn(4)], SortKeys: r.Bool(0.5)}
			if r.Bool(0.5) && len(b.cfgs) > 0 && b.cfgs[len(b.cfgs)-1].JSON != nil {
				// the same option value as the previous Config (the harness then passes the very
				// same option function to both WithConfig calls) ...
				prev := *b.cfgs[len(b.cfgs)-1].JSON
				c.JSON = &prev
				if r.Bool(0.5) {
					// ... or one that differs from it in exactly one field (whatever is remembered per
					// layout must be remembered under all of it)
					switch r.Intn(3) {
					case 0:
						prev.SortKeys = !prev.SortKeys
					case 1:
						prev.Width = []int{0, 20, 80, 0}[func() int {
							for i, w := range []int{0, 20, 80} {
								if w == prev.Width {
									return i + 1
								}
							}
							return 0
						}()]
					default:
						if prev.Indent == " " {
							prev.Indent = "  "
						} else {
							prev.Indent = " "
						}
					}
				}
			}
			if r.Bool(0.3) {
				// ... and sometimes a second JSON option that overrides it
				c.JSON2 = &scen.JSONOpts{Width: []int{0, 20, 80}[r.Intn(3)], Indent: []string{" ", "  ", "\t", ""}[r.Intn(4)], SortKeys: r.Bool(0.5)}
			}
		}
		b.cfgs = append(b.cfgs, c)
	}
}

func (b *builder) genMatchers(api string, in scen.Value) []scen.MatcherSpec {
	r, p := b.r, b.p
	if !r.Bool(p.MatcherP) {
		return nil
	}
	yamlAPI := api == scen.APIYAML
	prefix := ""
	if yamlAPI {
		prefix = "$."
	}
	paths := []string{"a", "b", "name", "created", "count", "ok", "inner", "inner.id", "user", "age", "missing", "nope.deeper", "k", "nested.z", "nested.k", "tags", "nested"}
	n := 1 + r.Intn(3)
	var ms []scen.MatcherSpec
	for i := 0; i < n; i++ {
		m := scen.MatcherSpec{Path: prefix + paths[r.Intn(len(paths))]}
		switch r.Intn(3) {
		case 0:
			m.Kind = "any"
		case 1:
			m.Kind = "type"
			if yamlAPI {
				m.TypeName = []string{"string", "bool"}[r.Intn(2)]
			} else {
				m.TypeName = []string{"string", "float64", "bool", "map", "slice", "strslice", "strmap"}[r.Intn(7)]
			}
		case 2:
			m.Kind = "custom"
			if r.Bool(p.BadMatcherP) {
				m.CustomErr = "custom says no"
			} else {
				m.CustomVal = "<custom>"
			}
		}
		if r.Bool(0.25) {
			m.NoErrMiss = true
		}
		ms = append(ms, m)
	}
	return ms
}

func (b *builder) genCall(test string, depth int) *scen.Call {
	r, p := b.r, b.p
	b.nextID++
	c := &scen.Call{ID: b.nextID, API: pickW(r, p.APIw), Cfg: -1}
	if len(b.cfgs) > 0 && r.Bool(p.CfgP) {
		c.Cfg = r.Intn(len(b.cfgs))
	}
	// a custom Filename on a standalone call belongs to one test only
	if scen.Standalone(c.API) && c.Cfg >= 0 && b.cfgs[c.Cfg].Filename != nil {
		key := fmt.Sprintf("%d", c.Cfg)
		owner := key + "|" + test
		if b.solo[key] && !b.solo[owner] {
			c.Cfg = -1
		} else {
			b.solo[key], b.solo[owner] = true, true
		}
	}
	b.fillValues(c)
	return c
}

func (b *builder) fillValues(c *scen.Call) {
	r, p := b.r, b.p
	switch c.API {
	case scen.APISnapshot:
		n := 1
		if r.Bool(0.15) {
			n = 2 + r.Intn(2)
		}
		c.Values = nil
		for i := 0; i < n; i++ {
			c.Values = append(c.Values, genValue(r, p.Alpha, p.Avoid))
		}
	case scen.APISSnap:
		c.Values = []scen.Value{genStandaloneValue(r, p.Alpha, p.Avoid)}
	case scen.APIJSON, scen.APISJSON:
		c.Values = []scen.Value{genJSONInput(r, p.InvalidP)}
		c.Matchers = b.genMatchers(c.API, c.Values[0])
	case scen.APIYAML:
		c.Values = []scen.Value{genYAMLInput(r, p.Avoid, p.InvalidP)}
		c.Matchers = b.genMatchers(c.API, c.Values[0])
	}
}

var subNames = []string{"sub", "s1", "case_a", "b", "sub10", "sub2", "nest", "A", "1", "Sub", "sub.1", "sub-2", "v9a", "v10", "7", "07", "50%_off", "x/y", "[x]", "sub#01", "ünï", "a=b",
	"R|TestB", "scenario_" + strings.Repeat("long_", 23)} // (124 bytes: what follows it in a test name lies beyond any 120-byte cut)

func (b *builder) genNode(name, full string, site, depth int) *scen.TestNode {
	r, p := b.r, b.p
	n := &scen.TestNode{Name: name, Site: site}
	calls := r.Intn(p.MaxCalls + 1)
	if r.Bool(p.ManyCallsP) {
		calls = 10 + r.Intn(4)
	}
	if depth == 0 && calls == 0 && r.Bool(0.7) {
		calls = 1
	}
	used := map[string]bool{}
	nsub := 0
	if depth < p.MaxDepth && r.Bool(p.SubP) {
		nsub = 1 + r.Intn(2)
	}
	total := calls + nsub
	subAt := map[int]bool{}
	for len(subAt) < nsub {
		subAt[r.Intn(total)] = true
	}
	for i := 0; i < total; i++ {
		if subAt[i] {
			sn := subNames[r.Intn(len(subNames))]
			// (the long name at most once per path: a standalone file is called after the whole
			// test name and file names end at 255 bytes)
			for used[sn] || (len(sn) > 100 && len(full) > 60) {
				sn = subNames[r.Intn(len(subNames))]
			}
			used[sn] = true
			n.Steps = append(n.Steps, scen.Step{Kind: "sub", Sub: b.genNode(sn, full+"/"+sn, site, depth+1)})
			if sn == "7" && !used["07"] && r.Bool(0.6) {
				// ids that differ only in the zero padding of a number
				used["07"] = true
				n.Steps = append(n.Steps, scen.Step{Kind: "sub", Sub: b.genNode("07", full+"/07", site, depth+1)})
			}
			if sn == "sub" && r.Bool(0.4) {
				// a sibling whose name extends this one by a byte that sorts before '/'
				sib := []string{"sub.1", "sub-2"}[r.Intn(2)]
				if !used[sib] {
					used[sib] = true
					n.Steps = append(n.Steps, scen.Step{Kind: "sub", Sub: b.genNode(sib, full+"/"+sib, site, depth+1)})
				}
			}
			continue
		}
		n.Steps = append(n.Steps, scen.Step{Kind: "call", Call: b.genCall(full, depth)})
	}
	return n
}

func (b *builder) genProgram(tasks bool) []*scen.TestNode {
	r, p := b.r, b.p
	nt := p.MinTests + r.Intn(p.MaxTests-p.MinTests+1)
	var prog []*scen.TestNode
	used := map[string]bool{}
	var all []string
	for _, l := range scen.Pool {
		all = append(all, l...)
	}
	for len(prog) < nt && len(used) < len(all) {
		name := all[r.Intn(len(all))]
		if used[name] {
			continue
		}
		used[name] = true
		prog = append(prog, b.genNode(name, name, scen.PoolFile(name), 0))
	}
	return prog
}

// ---------------------------------------------------------------- editing

func clone[T any](v T) T {
	b, _ := json.Marshal(v)
	var out T
	json.Unmarshal(b, &out)
	return out
}

func walkCalls(prog []*scen.TestNode, f func(n *scen.TestNode, i int, c *scen.Call)) {
	var w func(n *scen.TestNode)
	w = func(n *scen.TestNode) {
		for i := range n.Steps {
			switch n.Steps[i].Kind {
			case "call":
				f(n, i, n.Steps[i].Call)
			case "sub":
				w(n.Steps[i].Sub)
			}
		}
	}
	for _, n := range prog {
		w(n)
	}
}

func (b *builder) mutateCall(c *scen.Call) {
	r, p := b.r, b.p
	multi := !scen.Standalone(c.API)
	switch c.API {
	case scen.APISnapshot, scen.APISSnap:
		i := r.Intn(len(c.Values))
		v := c.Values[i]
		if v.K == "s" || v.K == "ds" {
			nv := scen.Str(mutateString(r, string(v.S), p.Avoid, multi))
			nv.K = v.K
			c.Values[i] = nv
		} else {
			old, _ := json.Marshal(v)
			for k := 0; k < 10; k++ {
				nv := structuredValue(r)
				nb, _ := json.Marshal(nv)
				if string(nb) != string(old) {
					c.Values[i] = nv
					break
				}
			}
		}
	default:
		if (c.API == scen.APIJSON || c.API == scen.APISJSON) && len(c.Matchers) == 0 && r.Bool(0.35) {
			// the same document with its members in another order: identical when keys are
			// sorted (must pass), different text when they are not (must be reported)
			if v := c.Values[0]; v.K == "s" || v.K == "b" {
				if p, ok := permuteJSON(v.S); ok {
					c.Values[0].S = p
					return
				}
			}
		}
		old, _ := json.Marshal(c.Values)
		for k := 0; k < 10; k++ {
			b.fillValues(c)
			nb, _ := json.Marshal(c.Values)
			if string(nb) != string(old) {
				break
			}
		}
	}
}

// permuteJSON rotates the members of a top-level JSON object.
func permuteJSON(doc []byte) ([]byte, bool) {
	dec := json.NewDecoder(bytes.NewReader(doc))
	tok, err := dec.Token()
	if err != nil || tok != json.Delim('{') {
		return nil, false
	}
	type kv struct {
		k string
		v json.RawMessage
	}
	var members []kv
	for dec.More() {
		kt, err := dec.Token()
		if err != nil {
			return nil, false
		}
		var raw json.RawMessage
		if err := dec.Decode(&raw); err != nil {
			return nil, false
		}
		members = append(members, kv{kt.(string), raw})
	}
	if len(members) < 2 {
		return nil, false
	}
	members = append(members[1:], members[0])
	var out bytes.Buffer
	out.WriteByte('{')
	for i, m := range members {
		if i > 0 {
			out.WriteByte(',')
		}
		kb, _ := json.Marshal(m.k)
		out.Write(kb)
		out.WriteByte(':')
		out.Write(m.v)
	}
	out.WriteByte('}')
	return out.Bytes(), true
}

// edit derives the next lifetime's program from prog.
func (b *builder) edit(prog []*scen.TestNode) []*scen.TestNode {
	r, p := b.r, b.p
	out := clone(prog)
	has := func(k string) bool {
		for _, x := range p.EditKinds {
			if x == k {
				return true
			}
		}
		return false
	}
	if has("value") {
		walkCalls(out, func(n *scen.TestNode, i int, c *scen.Call) {
			if r.Bool(p.EditValueP) {
				b.mutateCall(c)
			}
		})
	}
	if has("removecall") && r.Bool(0.6) {
		k := 1 + r.Intn(3)
		for ; k > 0; k-- {
			var cands []struct {
				n *scen.TestNode
				i int
			}
			walkCalls(out, func(n *scen.TestNode, i int, c *scen.Call) {
				cands = append(cands, struct {
					n *scen.TestNode
					i int
				}{n, i})
			})
			if len(cands) == 0 {
				break
			}
			pick := cands[r.Intn(len(cands))]
			// bias to the tail of a test: the ordinals of the remaining calls stay
			if r.Bool(0.6) {
				last := -1
				for j := range pick.n.Steps {
					if pick.n.Steps[j].Kind == "call" {
						last = j
					}
				}
				pick.i = last
			}
			pick.n.Steps = append(pick.n.Steps[:pick.i:pick.i], pick.n.Steps[pick.i+1:]...)
		}
	}
	if has("removetest") && len(out) > 1 && r.Bool(0.4) {
		i := r.Intn(len(out))
		out = append(out[:i:i], out[i+1:]...)
	}
	if has("removesub") && r.Bool(0.4) {
		for _, n := range out {
			for i := range n.Steps {
				if n.Steps[i].Kind == "sub" && r.Bool(0.5) {
					n.Steps = append(n.Steps[:i:i], n.Steps[i+1:]...)
					break
				}
			}
		}
	}
	if has("addcall") && r.Bool(0.5) {
		n := out[r.Intn(len(out))]
		n.Steps = append(n.Steps, scen.Step{Kind: "call", Call: b.genCall(n.Name, 0)})
	}
	if has("addtest") && r.Bool(0.3) {
		used := map[string]bool{}
		for _, n := range out {
			used[n.Name] = true
		}
		for _, l := range scen.Pool {
			for _, name := range l {
				if !used[name] && r.Bool(0.2) {
					out = append(out, b.genNode(name, name, scen.PoolFile(name), 0))
					used[name] = true
				}
			}
		}
	}
	if has("retarget") && r.Bool(0.35) {
		// a call now goes through another Config: its old slot becomes stale in one file
		// while the same test id is addressed in another
		var cands []*scen.Call
		walkCalls(out, func(n *scen.TestNode, i int, c *scen.Call) {
			if !scen.Standalone(c.API) {
				cands = append(cands, c)
			}
		})
		for k := 1 + r.Intn(2); k > 0 && len(cands) > 0; k-- {
			c := cands[r.Intn(len(cands))]
			nc := r.Intn(len(b.cfgs)+1) - 1
			if nc != c.Cfg {
				c.Cfg = nc
			}
		}
	}
	if has("skip") {
		kinds := []string{"Skip", "Skipf", "SkipNow"}
		var nodes []*scen.TestNode
		var collect func(n *scen.TestNode)
		collect = func(n *scen.TestNode) {
			nodes = append(nodes, n)
			for i := range n.Steps {
				if n.Steps[i].Kind == "sub" {
					collect(n.Steps[i].Sub)
				}
			}
		}
		for _, n := range out {
			collect(n)
		}
		addSkip := func(n *scen.TestNode) {
			st := scen.Step{Kind: "skip", Skip: kinds[r.Intn(3)]}
			n.Steps = append([]scen.Step{st}, n.Steps...)
		}
		for _, n := range nodes {
			// a test and the sibling whose name extends it ("sub", "sub.1") both skipped
			var a, bb *scen.TestNode
			for i := range n.Steps {
				if n.Steps[i].Kind == "sub" {
					switch n.Steps[i].Sub.Name {
					case "sub":
						a = n.Steps[i].Sub
					case "sub.1", "sub-2":
						bb = n.Steps[i].Sub
					}
				}
			}
			if a != nil && bb != nil && r.Bool(0.5) {
				addSkip(a)
				addSkip(bb)
			}
		}
		k := 1 + r.Intn(2)
		for ; k > 0 && len(nodes) > 0; k-- {
			n := nodes[r.Intn(len(nodes))]
			at := 0
			if len(n.Steps) > 0 && r.Bool(0.3) {
				at = r.Intn(len(n.Steps) + 1)
			}
			st := scen.Step{Kind: "skip", Skip: kinds[r.Intn(3)]}
			n.Steps = append(n.Steps[:at:at], append([]scen.Step{st}, n.Steps[at:]...)...)
		}
	}
	if has("shuffle") && r.Bool(0.5) {
		for i := len(out) - 1; i > 0; i-- {
			j := r.Intn(i + 1)
			out[i], out[j] = out[j], out[i]
		}
		b.shuffleNext = 1 + r.Intn(1000)
	}
	return out
}

// ---------------------------------------------------------------- -run patterns

func (b *builder) runPattern(prog []*scen.TestNode) string {
	r := b.r
	var tops, subs []string
	for _, n := range prog {
		tops = append(tops, n.Name)
		for i := range n.Steps {
			if n.Steps[i].Kind == "sub" {
				subs = append(subs, n.Name+"/"+n.Steps[i].Sub.Name)
			}
		}
	}
	if len(tops) == 0 {
		return ""
	}
	t := tops[r.Intn(len(tops))]
	// a top-level test that has sub-tests (for patterns that select a test but none of its sub-tests)
	parent := func() string {
		var ps []string
		for _, n := range prog {
			for i := range n.Steps {
				if n.Steps[i].Kind == "sub" {
					ps = append(ps, n.Name)
					break
				}
			}
		}
		if len(ps) == 0 {
			return t
		}
		return ps[r.Intn(len(ps))]
	}
	safe := []func() string{
		func() string { return "^" + t + "$" },
		func() string { return t },
		func() string { return "^" + t },
		func() string {
			u := tops[r.Intn(len(tops))]
			return "^(" + t + "|" + u + ")$"
		},
		func() string { return "Test[A-B]" },
		func() string { return "^Test" },
		// the test itself is selected, none of its sub-tests is: its body runs, no leaf test
		// "ran" - and with -count=n the go runner then performs a single iteration
		func() string { return "^" + parent() + "$/^nomatch$" },
		func() string { return parent() + "/typo" },
		func() string { return "^" + parent() + "$/^nomatch$" },
		// a sub-test addressed exactly, its metacharacters escaped (`R\|W`, `\[x\]`, `sub\.1`)
		func() string {
			if len(subs) > 0 {
				sp := subs[r.Intn(len(subs))]
				i := strings.Index(sp, "/")
				return "^" + sp[:i] + "$/^" + regexp.QuoteMeta(sp[i+1:]) + "$"
			}
			return "^" + t + "$"
		},
	}
	risky := []func() string{
		func() string {
			if len(subs) > 0 {
				return subs[r.Intn(len(subs))]
			}
			return t + "/sub"
		},
		func() string {
			if len(subs) > 0 {
				s := subs[r.Intn(len(subs))]
				return "^" + strings.Replace(s, "/", "$/^", 1) + "$"
			}
			return t
		},
		func() string { return "/" + subNames[r.Intn(len(subNames))] },
		func() string {
			// alternation of a two-level and a one-level pattern
			u := tops[r.Intn(len(tops))]
			if len(subs) > 0 {
				return "^" + strings.Replace(subs[r.Intn(len(subs))], "/", "$/^", 1) + "$|^" + u + "$"
			}
			return "^" + t + "$/sub|^" + u + "$"
		},
		func() string {
			// the shallow alternative first, the deeper one second
			u := tops[r.Intn(len(tops))]
			if len(subs) > 0 {
				sp := subs[r.Intn(len(subs))]
				return u + "|" + sp
			}
			return u + "|" + t + "/sub"
		},
		func() string { return "Sub|1" },
		func() string { return "1" },
		func() string { return "A$" },
		func() string { return t[len(t)-1:] },
	}
	if b.p.Config == "trigger-free" || r.Bool(0.4) {
		return safe[r.Intn(len(safe))]()
	}
	return risky[r.Intn(len(risky))]()
}

// ---------------------------------------------------------------- worlds

func (b *builder) sched() *scen.SchedSpec {
	r := b.r
	s := &scen.SchedSpec{Seed: r.U64(), MaxSteps: 20000}
	switch r.Intn(3) {
	case 0:
		s.Strategy = "uniform"
	case 1:
		s.Strategy = "pct"
		s.Depth = 1 + r.Intn(3)
	default:
		s.Strategy = "rtc"
		s.Depth = 1 + r.Intn(4)
	}
	return s
}

func pickEnv(r *scen.Rand, envs []map[string]string) map[string]string {
	e := map[string]string{}
	if len(envs) > 0 {
		for k, v := range envs[r.Intn(len(envs))] {
			e[k] = v
		}
	}
	if r.Bool(0.3) {
		e["NO_COLOR"] = "1"
	}
	return e
}

func pickInt(r *scen.Rand, l []int) int {
	if len(l) == 0 {
		return 1
	}
	return l[r.Intn(len(l))]
}

func asTasks(prog []*scen.TestNode) []*scen.TestNode { return prog }

func (b *builder) faults(prog []*scen.TestNode, kill bool) []scen.Fault {
	r := b.r
	var ids []int
	walkCalls(prog, func(n *scen.TestNode, i int, c *scen.Call) { ids = append(ids, c.ID) })
	if len(ids) == 0 {
		return nil
	}
	// calls that are likely to write in this lifetime (their value changed, or they are
	// new): a fault aimed at a call that only reads never fires
	hot := b.hotCalls(prog)
	kinds := []struct {
		kind string
		errs []string
	}{
		{"readfile", []string{"EIO", "EACCES"}},
		{"openfile", []string{"EIO", "EACCES", "ENOSPC"}},
		{"read", []string{"EIO"}},
		{"write", []string{"ENOSPC", "EIO"}},
		{"writefile", []string{"ENOSPC", "EIO"}},
		{"truncate", []string{"EIO"}},
		{"seek", []string{"EIO"}},
		{"close", []string{"EIO"}},
		{"mkdirall", []string{"EACCES", "ENOSPC"}},
		{"fstat", []string{"EIO"}},
		{"readdir", []string{"EIO"}},
		{"remove", []string{"EACCES"}},
		{"cleanopen", []string{"EIO", "EACCES"}},
		{"cleanwrite", []string{"ENOSPC", "EIO"}},
		{"cleantruncate", []string{"EIO"}},
		{"cleanread", []string{"EIO"}},
		{"cleanreadfile", []string{"EIO", "EACCES"}},
		{"rofile", []string{"EACCES"}},
		{"aofile", []string{"EPERM"}},
	}
	n := 1 + r.Intn(3)
	var out []scen.Fault
	for i := 0; i < n; i++ {
		k := kinds[r.Intn(len(kinds))]
		f := scen.Fault{Kind: k.kind, CallID: ids[r.Intn(len(ids))], Nth: 1 + r.Intn(2), Err: k.errs[r.Intn(len(k.errs))]}
		if len(hot) > 0 && r.Bool(0.5) {
			// the write path of a call that will take it
			wk := []string{"write", "writefile", "openfile", "truncate", "mkdirall", "close"}[r.Intn(6)]
			for _, kk := range kinds {
				if kk.kind == wk {
					k = kk
				}
			}
			f = scen.Fault{Kind: k.kind, CallID: hot[r.Intn(len(hot))], Nth: 1, Err: k.errs[r.Intn(len(k.errs))]}
			if k.kind == "openfile" && r.Bool(0.5) {
				f.Nth = 2 // (the first open of a call may be its lookup)
			}
		}
		if k.kind == "cleanopen" {
			// Clean opening a used snapshot file
			f.Kind = "openfile"
			f.CallID = -2
			f.PathSuffix = []string{"zz_world_a_test.snap", "zz_world_b_test.snap", "zz_world_c.snapshot_test.snap", "shared.snap", "data.snap"}[r.Intn(5)]
			f.Nth = 1
		}
		if k.kind == "cleanwrite" || k.kind == "cleantruncate" || k.kind == "cleanread" || k.kind == "cleanreadfile" {
			// Clean rewriting a used snapshot file: the n-th entry it writes back fails (or
			// the process dies there: the file is left truncated or half rewritten)
			f.Kind = strings.TrimPrefix(k.kind, "clean")
			f.CallID = -2
			f.PathSuffix = []string{"zz_world_a_test.snap", "zz_world_b_test.snap", "zz_world_c.snapshot_test.snap", "shared.snap", "data.snap"}[r.Intn(5)]
			f.Nth = 1 + r.Intn(3)
		}
		if k.kind == "rofile" || k.kind == "aofile" {
			// a snapshot file that is read-only for the whole lifetime (a read-only checkout):
			// whoever asks for write access to it is refused, readers are not
			f.CallID = -1
			f.PathSuffix = []string{"zz_world_a_test.snap", "zz_world_b_test.snap", "zz_world_c.snapshot_test.snap", "shared.snap", "data.snap"}[r.Intn(5)]
			f.Nth = 0
		}
		if k.kind == "readdir" || k.kind == "remove" {
			// operations of Clean: addressed by directory, because Clean visits directories
			// in Go map order, which nobody can seed (DESIGN.md 5.8)
			f.CallID = -1
			f.PathSuffix = []string{"/__snapshots__", "/snaps_dir", "/.snapshots", "/snapdir"}[r.Intn(4)]
			f.Nth = 1
		}
		if (k.kind == "write" || k.kind == "writefile") && r.Bool(0.5) {
			f.Short = 1 + r.Intn(6)
			if r.Bool(0.3) {
				f.Err = ""
				f.ShortOK = r.Bool(0.5)
			}
		}
		if kill && r.Bool(0.5) {
			f = scen.Fault{Kind: k.kind, CallID: f.CallID, Nth: 1, Kill: true}
		}
		out = append(out, f)
		if (k.kind == "write" || k.kind == "writefile") && !f.Kill {
			// "the data write of this call fails", whichever way the implementation writes
			// (one WriteFile, or OpenFile followed by Write)
			g := f
			if k.kind == "write" {
				g.Kind = "writefile"
			} else {
				g.Kind = "write"
			}
			out = append(out, g)
		}
	}
	return out
}

// hotCalls: ids of the calls of prog whose values differ from the program this one was
// edited from (b.prev), or that did not exist there.
func (b *builder) hotCalls(prog []*scen.TestNode) []int {
	old := map[int]string{}
	walkCalls(b.prev, func(n *scen.TestNode, i int, c *scen.Call) {
		j, _ := json.Marshal(c)
		old[c.ID] = string(j)
	})
	var hot []int
	walkCalls(prog, func(n *scen.TestNode, i int, c *scen.Call) {
		j, _ := json.Marshal(c)
		if o, ok := old[c.ID]; !ok || o != string(j) {
			hot = append(hot, c.ID)
		}
	})
	return hot
}

// World draws one world.
func World(seed uint64, index int, p *Params) *check.World {
	r := scen.NewRand(scen.Mix(seed, uint64(index)))
	b := &builder{r: r, p: p, solo: map[string]bool{}}
	b.genConfigs()
	w := &check.World{Prop: p.Prop, Family: p.Family, Seed: seed, Index: index, Config: p.Config}
	for _, c := range b.cfgs {
		if c.Dir != nil && strings.HasPrefix(*c.Dir, "linked_snaps") {
			// the snapshot directory is a symbolic link (a shared folder mounted into the package)
			w.Pre = append(w.Pre, check.PreFile{Path: scen.NominalDir + "/linked_snaps", Link: "store_real", IsDir: true})
			break
		}
	}
	if r.Bool(p.PreFilesP) {
		dirs := []string{scen.NominalDir + "/__snapshots__", scen.NominalDir + "/snaps_dir", scen.NominalDir + "/elsewhere/__snapshots__"}
		d := dirs[r.Intn(len(dirs))]
		cands := []check.PreFile{
			{Path: d + "/notes.txt", Data: []byte("keep me\n")},
			{Path: d + "/README", Data: []byte("x")},
			{Path: d + "/subdir", IsDir: true},
			{Path: d + "/old.snapshots", IsDir: true},
			{Path: d + "/old.snapshots/kept.snap", Data: []byte("\n[TestOld - 1]\nold\n---\n")},
			{Path: d + "/subdir/inner.snap", Data: []byte("\n[TestZ - 1]\nz\n---\n")},
			{Path: d + "/old_stale.snap", Data: []byte("\n[TestGone - 1]\nold\n---\n")},
			{Path: d + "/TestGone_1.snap", Data: []byte("standalone leftover")},
			{Path: d + "/data.snapshot", Data: []byte("contains .snap in its name")},
			{Path: scen.NominalDir + "/unvisited/__snapshots__/x.snap", Data: []byte("\n[TestQ - 1]\nq\n---\n")},
			// a stale snapshot file that is a symbolic link into a folder no test addresses
			{Path: scen.NominalDir + "/golden/linked_old.snap", Data: []byte("\n[TestLinked - 1]\nl\n---\n")},
			{Path: d + "/linked_old.snap", Link: "../golden/linked_old.snap"},
		}
		for _, c := range cands {
			if r.Bool(0.4) {
				w.Pre = append(w.Pre, c)
			}
		}
	}
	if r.Bool(p.L0P) {
		b0 := &builder{r: r, p: p, solo: b.solo, cfgs: b.cfgs, nextID: 100000}
		prog0 := b0.genProgram(false)
		w.Lifetimes = append(w.Lifetimes, &scen.Lifetime{Mode: "runner", Count: 1, Env: map[string]string{}, Configs: b.cfgs, Tests: prog0, Note: "L0 unrelated recording"})
	}
	prog := b.genProgram(false)
	l1 := &scen.Lifetime{Mode: "runner", Count: pickInt(r, p.RecordCount), Env: map[string]string{}, Configs: b.cfgs, Tests: prog, Note: "L1 record"}
	if r.Bool(0.3) {
		l1.Env["NO_COLOR"] = "1"
	}
	if r.Bool(p.RecordTasksP) {
		l1.Mode, l1.Count, l1.Sched = "tasks", 1, b.sched()
	}
	w.Lifetimes = append(w.Lifetimes, l1)
	if len(p.Envs) == 0 && p.CleanP == 0 {
		b.nonTestNames(w)
		return w
	}
	prog2 := b.edit(prog)
	b.prev = prog
	l2 := &scen.Lifetime{Mode: "runner", Count: pickInt(r, p.Counts), Env: pickEnv(r, p.Envs), Configs: b.cfgs, Tests: prog2, Note: "L2", Shuffle: b.shuffleNext}
	if r.Bool(p.TasksP) {
		l2.Mode, l2.Count, l2.Sched = "tasks", 1, b.sched()
		l2.Race = r.Bool(p.RaceP)
	} else if r.Bool(p.RunP) {
		l2.Run = b.runPattern(prog2)
	}
	if r.Bool(p.CleanP) {
		l2.Clean = &scen.CleanSpec{}
		if r.Bool(p.SortP) {
			l2.Clean.Opts, l2.Clean.Sort = true, true
		} else if r.Bool(0.3) {
			l2.Clean.Opts = true
		}
	}
	if r.Bool(p.FaultP) {
		l2.Faults = b.faults(prog2, r.Bool(p.KillP))
	}
	if r.Bool(p.PreDeleteP) {
		l2.PreDelete = 1 + r.Intn(50)
	}
	if r.Bool(p.PreCorruptP) {
		l2.PreCorrupt = 1 + r.Intn(500)
	}
	if r.Bool(p.PreEditP) {
		l2.PreEdit = 1 + r.Intn(500)
	}
	if p.PreLinkP > 0 && r.Bool(p.PreLinkP) {
		l2.PreLink = 1 + r.Intn(500)
	}
	w.Lifetimes = append(w.Lifetimes, l2)
	if r.Bool(p.ExtraLifeP) {
		prog2 = b.edit(prog2)
		lx := &scen.Lifetime{Mode: "runner", Count: pickInt(r, p.Counts), Env: pickEnv(r, p.Envs), Configs: b.cfgs, Tests: prog2, Note: "L2b another edited run"}
		if r.Bool(p.RunP) {
			lx.Run = b.runPattern(prog2)
		}
		if r.Bool(p.CleanP) {
			lx.Clean = &scen.CleanSpec{}
			if r.Bool(p.SortP) {
				lx.Clean.Opts, lx.Clean.Sort = true, true
			}
		}
		w.Lifetimes = append(w.Lifetimes, lx)
		l2 = lx
	}
	if r.Bool(p.ReplayP) {
		l3 := &scen.Lifetime{Mode: "runner", Count: 1, Env: map[string]string{"CI": "true"}, Configs: b.cfgs, Tests: clone(prog2), Note: "L3 read-only replay"}
		stripSkips(l3.Tests)
		if r.Bool(p.CleanAgainP) && l2.Clean != nil {
			l3.Env = clone(l2.Env)
			l3.Clean = clone(l2.Clean)
			l3.Run = l2.Run
			l3.Note = "L3 same mode again"
		}
		w.Lifetimes = append(w.Lifetimes, l3)
	}
	b.nonTestNames(w)
	if r.Bool(p.TrimpathP) {
		// build modes mixed within one history: what one binary recorded the other replays
		for _, l := range w.Lifetimes {
			if !l.Race && r.Bool(0.6) {
				l.Trimpath = true
			}
		}
	}
	return w
}

// nonTestNames: go-snaps accepts anything with the testingT methods; a *testing.B
// is called BenchmarkX, a fuzz target FuzzX (its inputs FuzzX/seed#0). Some worlds
// give a subset of their top-level tests such names. The real runner only executes
// Test functions of the pool, so every lifetime of such a world runs its tests as
// simulated tests under the scheduler.
func (b *builder) nonTestNames(w *check.World) {
	r, p := b.r, b.p
	if !p.NonTestNames || !r.Bool(0.3) {
		return
	}
	salt := r.U64()
	rename := func(name string) string {
		if !strings.HasPrefix(name, "Test") {
			return name
		}
		h := scen.Mix(salt, uint64(len(name))*131+uint64(name[len(name)-1]))
		switch h % 4 {
		case 0:
			return "Benchmark" + name[4:]
		case 1:
			return "Fuzz" + name[4:]
		}
		return name
	}
	for _, l := range w.Lifetimes {
		if l.Mode != "tasks" {
			l.Mode, l.Count, l.Run, l.Shuffle = "tasks", 1, "", 0
			if l.Sched == nil {
				l.Sched = b.sched()
			}
		}
		for _, n := range l.Tests {
			n.Name = rename(n.Name)
		}
	}
	w.Note += " non-Test names"
}

func stripSkips(prog []*scen.TestNode) {
	var w func(n *scen.TestNode)
	w = func(n *scen.TestNode) {
		out := n.Steps[:0]
		for _, s := range n.Steps {
			if s.Kind == "skip" {
				continue
			}
			if s.Kind == "sub" {
				w(s.Sub)
			}
			out = append(out, s)
		}
		n.Steps = out
	}
	for _, n := range prog {
		w(n)
	}
}
