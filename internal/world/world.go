// Package world runs lifetimes: one real OS process of the simulation test
// binary per lifetime, over a private directory that plays the disk.
package world

import (
	"bytes"
	"crypto/sha256"
	"encoding/hex"
	"encoding/json"
	"fmt"
	"io/fs"
	"os"
	"os/exec"
	"path/filepath"
	"sort"
	"strconv"
	"strings"
	"time"

	"verif/sim/scen"
)

type Bins struct {
	Bin        string
	RaceBin    string
	TrimBin    string
	Sources    map[string][]byte
	TimeoutSec int // -test.timeout of a lifetime (default 25); the watchdog is 35 s above it
}

type Result struct {
	Report       *scen.Report
	Stderr       string
	Stdout       string
	ExitCode     int
	Timeout      bool
	Races        []string // race reports that involve library frames
	HarnessRaces []string
	Wall         time.Duration
}

// NewRoot creates a fresh world root below base and installs the harness test
// sources at their nominal paths.
func NewRoot(base string, b *Bins) (string, error) {
	root, err := os.MkdirTemp(base, "w")
	if err != nil {
		return "", err
	}
	for p, src := range b.Sources {
		dst := root + p
		if err := os.MkdirAll(filepath.Dir(dst), 0o755); err != nil {
			return "", err
		}
		if err := os.WriteFile(dst, src, 0o644); err != nil {
			return "", err
		}
	}
	return root, nil
}

var lifeSeq int

// Run executes one lifetime. side is a directory outside the root for the
// scenario and report files.
func Run(b *Bins, root, side string, l *scen.Lifetime, idx int) (*Result, error) {
	lifePath := filepath.Join(side, fmt.Sprintf("life%d.json", idx))
	outPath := filepath.Join(side, fmt.Sprintf("report%d.json", idx))
	os.Remove(outPath)
	lb, err := json.Marshal(l)
	if err != nil {
		return nil, err
	}
	if err := os.WriteFile(lifePath, lb, 0o644); err != nil {
		return nil, err
	}
	bin := b.Bin
	if l.Trimpath && !l.Race && b.TrimBin != "" {
		bin = b.TrimBin
	}
	if l.Race {
		if b.RaceBin == "" {
			return nil, fmt.Errorf("race binary not built")
		}
		bin = b.RaceBin
	}
	tmo := b.TimeoutSec
	if tmo <= 0 {
		tmo = 25
	}
	args := []string{"-test.count=" + strconv.Itoa(max(1, l.Count)), "-test.timeout=" + strconv.Itoa(tmo) + "s"}
	if l.Run != "" {
		args = append(args, "-test.run="+l.Run)
	}
	if l.Shuffle > 0 && l.Mode == "runner" {
		args = append(args, "-test.shuffle="+strconv.Itoa(l.Shuffle))
	}
	cmd := exec.Command(bin, args...)
	cmd.Dir = root // real cwd is irrelevant to the library (Getwd is shimmed)
	env := []string{"VERIF_ROOT=" + root, "VERIF_LIFE=" + lifePath, "VERIF_OUT=" + outPath, "VERIF_NOMINAL=" + scen.NominalDir, "PATH=/usr/bin:/bin", "HOME=/nonexistent"}
	if l.Race {
		env = append(env, "GORACE=atexit_sleep_ms=0 history_size=2")
	}
	keys := make([]string, 0, len(l.Env))
	for k := range l.Env {
		keys = append(keys, k)
	}
	sort.Strings(keys)
	for _, k := range keys {
		env = append(env, k+"="+l.Env[k])
	}
	cmd.Env = env
	var so, se bytes.Buffer
	cmd.Stdout, cmd.Stderr = &so, &se
	start := time.Now()
	if err := cmd.Start(); err != nil {
		return nil, err
	}
	done := make(chan error, 1)
	go func() { done <- cmd.Wait() }()
	res := &Result{}
	select {
	case err = <-done:
	case <-time.After(time.Duration(tmo+35) * time.Second):
		cmd.Process.Kill()
		<-done
		res.Timeout = true
	}
	res.Wall = time.Since(start)
	res.Stdout, res.Stderr = so.String(), se.String()
	if cmd.ProcessState != nil {
		res.ExitCode = cmd.ProcessState.ExitCode()
	}
	if rb, err := os.ReadFile(outPath); err == nil {
		var rep scen.Report
		if err := json.Unmarshal(rb, &rep); err != nil {
			return res, fmt.Errorf("bad report: %v", err)
		}
		res.Report = &rep
	}
	if l.Race {
		res.Races, res.HarnessRaces = parseRaces(res.Stderr)
	}
	return res, nil
}

// parseRaces splits the race detector's output into reports and keeps those in
// which at least one of the two conflicting accesses is in go-snaps code.
func parseRaces(stderr string) (lib, harness []string) {
	parts := strings.Split(stderr, "==================")
	for _, p := range parts {
		if !strings.Contains(p, "WARNING: DATA RACE") {
			continue
		}
		// the access stacks are the first two blocks ("Read at"/"Write at"/"Previous ...")
		blocks := strings.Split(p, "\n\n")
		libFrame := false
		n := 0
		for _, b := range blocks {
			t := strings.TrimSpace(b)
			if strings.HasPrefix(t, "WARNING: DATA RACE") || strings.HasPrefix(t, "Previous") || strings.HasPrefix(t, "Read at") || strings.HasPrefix(t, "Write at") {
				n++
				if topFrameInLibrary(t) {
					libFrame = true
				}
			}
		}
		if libFrame {
			lib = append(lib, strings.TrimSpace(p))
		} else {
			harness = append(harness, strings.TrimSpace(p))
		}
	}
	return
}

// topFrameInLibrary: the access itself (innermost frame that is neither
// runtime, standard library nor third-party) is in the go-snaps module and not
// in the injected harness.
func topFrameInLibrary(block string) bool {
	for _, raw := range strings.Split(block, "\n") {
		l := strings.TrimSpace(raw)
		if !strings.HasSuffix(l, ")") || strings.HasPrefix(l, "/") || strings.Contains(l, " ") {
			continue // not a function line
		}
		switch {
		case strings.HasPrefix(l, "verif/sim/simos.") || strings.HasPrefix(l, "verif/sim/simfilepath.") || strings.HasPrefix(l, "verif/sim/simioutil.") || strings.HasPrefix(l, "verif/sim/simparser."):
			continue // stand-ins for the standard library: the access belongs to their caller
		case strings.Contains(l, "snaps_test.") || strings.HasPrefix(l, "verif/"):
			return false
		case strings.HasPrefix(l, "github.com/gkampitakis/go-snaps/"):
			return true
		}
	}
	return false
}

// Snapshot of a world root: path -> content ("" + dir marker for directories).
type Disk map[string][]byte

const DirMarker = "\x00dir"

// ReadDisk reads everything under root+prefix (nominal paths as keys).
// LinkMarker prefixes the recorded content of a symbolic link.
const LinkMarker = "\x00symlink:"

// LinkStoreName: the directory (below the package directory) where the checker keeps
// files it replaced by symbolic links.
const LinkStoreName = "zz_linkstore"

func ReadDisk(root string, skip func(nominal string) bool) (Disk, error) {
	d := Disk{}
	// A symbolic link to a directory is a second name of that directory: its content is
	// reported below the link (the name the tests use) and the directory it points to is
	// not reported under its own name.
	hidden := map[string]bool{}
	filepath.WalkDir(root, func(p string, e fs.DirEntry, err error) error {
		if err == nil && e.Type()&fs.ModeSymlink != 0 {
			if fi, serr := os.Stat(p); serr == nil && fi.IsDir() {
				if t, rerr := filepath.EvalSymlinks(p); rerr == nil {
					hidden[t] = true
				}
			}
		}
		return nil
	})
	var walk func(phys, nomBase string) error
	walk = func(phys, nomBase string) error {
		return filepath.WalkDir(phys, func(p string, e fs.DirEntry, err error) error {
			if err != nil {
				return err
			}
			nom := nomBase + strings.TrimPrefix(p, phys)
			if nom == "" {
				return nil
			}
			if skip != nil && skip(nom) {
				return nil
			}
			if e.IsDir() {
				if hidden[p] && p != phys {
					return filepath.SkipDir
				}
				if p != phys || nomBase == "" {
					d[nom] = []byte(DirMarker)
				}
				return nil
			}
			if e.Type()&fs.ModeSymlink != 0 {
				// a symbolic link is recorded as such (not as the content it points to)
				target, lerr := os.Readlink(p)
				if lerr != nil {
					return lerr
				}
				if fi, serr := os.Stat(p); serr == nil && fi.Mode().IsRegular() && strings.Contains(target, "/"+LinkStoreName+"/") {
					// a predicted snapshot file that the driver turned into a link to the same
					// content kept in the link store: reported with the content it shows
					b, rerr := os.ReadFile(p)
					if rerr != nil {
						return rerr
					}
					d[nom] = b
					return nil
				}
				d[nom] = []byte(LinkMarker + target)
				if fi, serr := os.Stat(p); serr == nil && fi.IsDir() {
					if t, rerr := filepath.EvalSymlinks(p); rerr == nil {
						return walk(t, nom)
					}
				}
				return nil
			}
			b, err := os.ReadFile(p)
			if err != nil {
				return err
			}
			d[nom] = b
			return nil
		})
	}
	err := walk(root, "")
	return d, err
}

func (d Disk) Hash() string {
	keys := make([]string, 0, len(d))
	for k := range d {
		keys = append(keys, k)
	}
	sort.Strings(keys)
	h := sha256.New()
	for _, k := range keys {
		fmt.Fprintf(h, "%d:%s:%d:", len(k), k, len(d[k]))
		h.Write(d[k])
	}
	return hex.EncodeToString(h.Sum(nil))[:16]
}

// Diff lists paths that differ between two disks.
func Diff(a, b Disk) (removed, added, changed []string) {
	for k, v := range a {
		w, ok := b[k]
		if !ok {
			removed = append(removed, k)
		} else if !bytes.Equal(v, w) {
			changed = append(changed, k)
		}
	}
	for k := range b {
		if _, ok := a[k]; !ok {
			added = append(added, k)
		}
	}
	sort.Strings(removed)
	sort.Strings(added)
	sort.Strings(changed)
	return
}
