# Builds the simulation driver from sources in /verif only (offline).
export GOFLAGS=-mod=mod
export GOPROXY=off
export GOSUMDB=off
export GOTOOLCHAIN=local

SRC := $(shell find cmd internal sim -name '*.go') go.mod

build: bin/simdrive

bin/simdrive: $(SRC)
	go build -o bin/simdrive ./cmd/simdrive

clean:
	rm -f bin/simdrive
	rm -rf out

.PHONY: build clean
