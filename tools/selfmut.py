#!/usr/bin/env python3
"""Sensitivity: apply deliberate property-breaking edits to a scratch worktree of
/repo (never to /repo), check that the baseline suite still passes, and run the
named checks against it with VERIF_REPO. Usage: selfmut.py [name-substring]"""
import subprocess, sys, os, json
WT = '/tmp/wt-mut'
ENV = dict(os.environ, GOFLAGS='-mod=mod', GOPROXY='off', GOSUMDB='off', GOTOOLCHAIN='local')
MUTS = [
 # name, file, old, new, checks
 ('update-ignores-ci', 'snaps/utils.go', 'func shouldUpdate(u *bool) bool {\n\tif isCI {\n\t\treturn false\n\t}\n', 'func shouldUpdate(u *bool) bool {\n', ['C05','C02']),
 ('create-ignores-update-false', 'snaps/utils.go', 'func shouldCreate(u *bool) bool {\n\tif isCI {\n\t\treturn false\n\t}\n\n\tif u != nil {\n\t\treturn *u\n\t}\n', 'func shouldCreate(u *bool) bool {\n\tif isCI {\n\t\treturn false\n\t}\n', ['C05']),
 ('clean-deletes-on-any-updvar', 'snaps/utils.go', 'shouldClean     = updateVAR == "true" || updateVAR == "clean"', 'shouldClean     = updateVAR != ""', ['C05','C09']),
 ('no-truncate', 'snaps/snapshot.go', '\tf.Truncate(0)\n', '', ['C04','C10']),
 ('prefix-lookup', 'snaps/snapshot.go', '\t\tif !bytes.Equal(l, tid) {\n\t\t\tlineNumber++', '\t\tif !bytes.HasPrefix(l, tid[:len(tid)-1]) {\n\t\t\tlineNumber++', ['C03','C01']),
 ('no-lock-append', 'snaps/snapshot.go', '\t_m.Lock()\n\tdefer _m.Unlock()\n\n\tif err := os.MkdirAll(filepath.Dir(snapPath), os.ModePerm); err != nil {\n\t\treturn err\n\t}\n\n\tf, err := os.OpenFile(snapPath, os.O_APPEND', '\tif err := os.MkdirAll(filepath.Dir(snapPath), os.ModePerm); err != nil {\n\t\treturn err\n\t}\n\n\tf, err := os.OpenFile(snapPath, os.O_APPEND', ['C06']),
 ('unlock-not-deferred', 'snaps/snapshot.go', '\t_m.Lock()\n\tdefer _m.Unlock()\n\tf, err := os.OpenFile(snapPath, os.O_RDWR, os.ModePerm)\n\tif err != nil {\n\t\treturn err\n\t}', '\t_m.Lock()\n\tf, err := os.OpenFile(snapPath, os.O_RDWR, os.ModePerm)\n\tif err != nil {\n\t\treturn err\n\t}\n\tdefer _m.Unlock()', ['C20','C06']),
 ('occurrences-no-division', 'snaps/clean.go', '\t\tcounter = counter / count\n', '', ['C09','C07']),
 ('skip-prefix-no-slash', 'snaps/skip.go', 'strings.HasPrefix(testName, name+"/")', 'strings.HasPrefix(testName, name)', ['C08','C09']),
 ('delete-without-mode', 'snaps/clean.go', '\t\t\tif !shouldUpdate {\n\t\t\t\tcontinue\n\t\t\t}\n\n\t\t\tif err := os.Remove', '\t\t\tif err := os.Remove', ['C09','C05']),
 ('passed-on-update', 'snaps/matchSnapshot.go', '\tt.Log(updatedMsg)\n\ttestEvents.register(updated)', '\tt.Log(updatedMsg)\n\ttestEvents.register(passed)', ['C20']),
 ('ordinal-not-consumed-on-matcher-error', 'snaps/matchJSON.go', '\t\thandleError(t, s.String())\n\t\treturn\n', '\t\thandleError(t, s.String())\n\t\ttestsRegistry.running[snapPath][t.Name()]--\n\t\treturn\n', ['C17','C03']),
 ('standalone-adds-newline', 'snaps/snapshot.go', 'return os.WriteFile(snapPath, []byte(snapshot), os.ModePerm)', 'return os.WriteFile(snapPath, []byte(snapshot+"\\n"), os.ModePerm)', ['C19']),
 ('config-ext-sticky', 'snaps/matchStandaloneJSON.go', '\tcfg := *c\n\tif cfg.extension == "" {\n\t\tcfg.extension = ".json"\n\t}\n\n\tmatchStandaloneJSON(&cfg, t, input, matchers...)', '\tif c.extension == "" {\n\t\tc.extension = ".json"\n\t}\n\n\tmatchStandaloneJSON(c, t, input, matchers...)', ['C12','C06']),
 ('sort-drops-stale', 'snaps/clean.go', '\t\t\t\tif update {\n\t\t\t\t\tremoveSnapshot(s)\n\t\t\t\t\tcontinue\n\t\t\t\t}\n', '\t\t\t\tremoveSnapshot(s)\n\t\t\t\tcontinue\n', ['C09']),
 ('trim-all-newlines', 'snaps/snapshot.go', 'return strings.TrimSuffix(snapshot.String(), "\\n"), lineNumber, nil', 'return strings.TrimRight(snapshot.String(), "\\n"), lineNumber, nil', ['C01','C02']),
 ('matcher-error-still-writes', 'snaps/matchJSON.go', '\t\thandleError(t, s.String())\n\t\treturn\n\t}\n\n\tsnapshot := takeJSONSnapshot(c, j)', '\t\thandleError(t, s.String())\n\t}\n\n\tsnapshot := takeJSONSnapshot(c, j)', ['C17','C20']),
 ('clean-ignores-standalone-registry', 'snaps/clean.go', '\t\t\tif registeredStandaloneTests.Has(snapPath) {\n\t\t\t\tcontinue\n\t\t\t}\n', '', ['C07']),
 ('sort-lexicographic', 'snaps/clean.go', '\tif natural.Less(a, b) {\n\t\treturn -1\n\t}', '\tif a < b {\n\t\treturn -1\n\t}\n\t_ = natural.Less', ['C10']),
 ('summary-swaps-added-updated', 'snaps/clean.go', 'printEvent(&s, colors.Green, updateSymbol, "added", testEvents[added])\n\tprintEvent(&s, colors.Green, updateSymbol, "updated", testEvents[updated])', 'printEvent(&s, colors.Green, updateSymbol, "added", testEvents[updated])\n\tprintEvent(&s, colors.Green, updateSymbol, "updated", testEvents[added])', ['C20']),
 ('clean-ignores-count', 'snaps/clean.go', 'count, _ := strconv.Atoi(flag.Lookup("test.count").Value.String())', 'count, _ := strconv.Atoi(flag.Lookup("test.count").Value.String())\n\tcount = 1', ['C09','C07']),
 ('walk-hassuffix-snap', 'snaps/clean.go', '!strings.Contains(content.Name(), snapsExt)', '!strings.HasSuffix(content.Name(), snapsExt)', ['C09']),
 ('skipf-not-tracked', 'snaps/skip.go', 'func Skipf(t testingT, format string, args ...any) {\n\tt.Helper()\n\n\ttrackSkip(t)', 'func Skipf(t testingT, format string, args ...any) {\n\tt.Helper()\n', ['C08','C20']),
 ('error-not-counted', 'snaps/snapshot.go', '\tt.Error(err)\n\ttestEvents.register(erred)', '\tt.Error(err)', ['C20']),
 ('yaml-not-escaped', 'snaps/matchYAML.go', 'return escapeEndChars(string(b))', 'return string(b)', ['C01','C04']),
 ('sort-never', 'snaps/clean.go', '\t\topt.Sort && !isCI,', '\t\tfalse && opt.Sort && !isCI,', ['C10']),
 ('run-deeper-levels-not-matched', 'snaps/skip.go', '\t\t\tif i >= len(alternative) {\n\t\t\t\tbreak\n\t\t\t}', '\t\t\tif i >= len(alternative) {\n\t\t\t\tmatched = false\n\t\t\t\tbreak\n\t\t\t}', ['C08','C09']),
 ('run-alternation-ignored', 'snaps/skip.go', "\t\tcase '|':\n\t\t\tif brackets == 0 && parens == 0 {", "\t\tcase '|':\n\t\t\tif false && brackets == 0 && parens == 0 {", ['C08','C09']),
 ('empty-unused-file-protected', 'snaps/skip.go', '\treturn found\n}', '\treturn true\n}', ['C09']),
 ('skip-list-ignored-for-files', 'snaps/clean.go', '\t\t\tif isFileSkipped(dir, content.Name(), runOnly) ||\n\t\t\t\tfileOfSkippedTests(snapPath, runOnly) {', '\t\t\tif isFileSkipped(dir, content.Name(), runOnly) {', ['C08']),
 ('added-log-twice', 'snaps/matchYAML.go', '\t\tt.Log(addedMsg)\n\t\ttestEvents.register(added)', '\t\tt.Log(addedMsg)\n\t\tt.Log(addedMsg)\n\t\ttestEvents.register(added)', ['C20']),
]
def sh(cmd, **kw):
    return subprocess.run(cmd, shell=True, capture_output=True, text=True, env=ENV, **kw)
def main():
    pat = sys.argv[1] if len(sys.argv) > 1 else ''
    sh(f'git -C /repo worktree remove --force {WT}')
    r = sh(f'git -C /repo worktree add --detach {WT} HEAD')
    assert r.returncode == 0, r.stderr
    results = []
    try:
        for name, file, old, new, checks in MUTS:
            if pat not in name: continue
            p = f'{WT}/{file}'
            src = open(p).read()
            if old not in src:
                print(f'{name}: PATTERN NOT FOUND'); continue
            open(p, 'w').write(src.replace(old, new, 1))
            t = sh('go build ./... && go test -vet=off -count=1 ./... 2>&1 | tail -8', cwd=WT)
            suite = 'suite-pass' if ('FAIL' not in t.stdout and t.returncode == 0 and 'rror' not in t.stdout+t.stderr) else 'SUITE-FAILS'
            row = [name, suite]
            for c in checks:
                r = sh(f'VERIF_REPO={WT} VERIF_WORLDS={os.environ.get("MUT_WORLDS","3000")} /verif/bin/simdrive check {c} quick', cwd='/verif')
                v = [l for l in r.stdout.split('\n') if l.startswith('VIOLATION')]
                row.append(f'{c}:exit{r.returncode}:{len(v)}viol')
                if r.returncode == 2:
                    row.append(r.stdout[-300:].replace('\n', ' | '))
            print('  '.join(row), flush=True)
            results.append(row)
            open(p, 'w').write(src)
    finally:
        sh(f'git -C /repo worktree remove --force {WT}')
main()
