#!/bin/bash
# Evaluate every sub-agent mutant found under /tmp/mut-*/out/m*; results to /tmp/evalall/<prop>-<m>.txt
mkdir -p /tmp/evalall
for d in /tmp/mut-*/out/m*; do
  [ -f $d/patch.diff ] && [ -f $d/meta.json ] || continue
  prop=$(basename $(dirname $(dirname $d)) | sed 's/mut-//')
  m=$(basename $d)
  out=/tmp/evalall/$prop-$m.txt
  [ -f $out ] && continue
  /verif/tools/evalmut.sh $d $prop > $out 2>&1
  head -3 $out | tr '\n' ' '; grep "^check" $out | tr '\n' ' '; echo
done
