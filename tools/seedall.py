#!/usr/bin/env python3
"""Evaluate the sub-agent changes under /tmp/mut-*/out/m* with tools/evalmut.sh and
file the confirmed ones under /verif/seeded/<PROP>-<m>/ (patch.diff, demo/, meta.json)."""
import json, os, re, shutil, subprocess, sys
ROOT = os.environ.get('VERIF_DIR', '/verif')
PLAN = {
 'C01-m1': ['C01','C03','C06'], 'C01-m2': ['C01','C10'], 'C02-m1': ['C02'], 'C02-m2': ['C02','C06'],
 'C03-m1': ['C03','C17'], 'C03-m2': ['C03','C06','C04'], 'C04-m1': ['C04','C01'], 'C04-m2': ['C04','C06'],
 'C05-m1': ['C05','C09'], 'C05-m2': ['C05','C19'], 'C06-m1': ['C06','C04'], 'C06-m2': ['C06','C03'],
 'C07-m1': ['C07','C06'], 'C07-m2': ['C07','C03'], 'C08-m1': ['C08'], 'C08-m2': ['C08'], 'C09-m1': ['C09'], 'C09-m2': ['C09'],
 'C10-m1': ['C10','C01'], 'C10-m2': ['C10','C08'], 'C12-m1': ['C12'], 'C12-m2': ['C12','C06'], 'C17-m1': ['C17'], 'C17-m2': ['C17','C19'],
 'C19-m1': ['C19'], 'C19-m2': ['C19'], 'C20-m1': ['C20','C09'], 'C20-m2': ['C20'],
}
PLAN2 = {
 'W2A-m1': ('A', ['C20','C06']), 'W2A-m2': ('A', ['C20','C09']),
 'W2B-m1': ('B', ['C05','C02']), 'W2B-m2': ('B', ['C05','C10']),
 'W2C-m1': ('C', ['C03','C06']), 'W2C-m2': ('C', ['C03','C07']),
 'W2D-m1': ('D', ['C09','C10']), 'W2D-m2': ('D', ['C09']),
 'W2E-m1': ('E', ['C04','C01']), 'W2E-m2': ('E', ['C04','C01']),
 'W2F-m1': ('F', ['C12']), 'W2F-m2': ('F', ['C12','C19']),
 'W2G-m1': ('G', ['C17','C05']), 'W2G-m2': ('G', ['C17']),
 'W2H-m1': ('H', ['C01','C04']), 'W2H-m2': ('H', ['C01','C04']),
}
PLAN3 = {
 'W3A-m1': ('A', ['C07','C10']), 'W3A-m2': ('A', ['C07','C17']),
 'W3B-m1': ('B', ['C10']), 'W3B-m2': ('B', ['C10','C09']),
 'W3C-m1': ('C', ['C19','C03']), 'W3C-m2': ('C', ['C19']),
 'W3D-m1': ('D', ['C06','C12']), 'W3D-m2': ('D', ['C06']),
 'W3E-m1': ('E', ['C02','C01']), 'W3E-m2': ('E', ['C02']),
 'W3F-m1': ('F', ['C08']), 'W3F-m2': ('F', ['C08']),
}
PLAN4 = {
 'W4A-m1': ('A', ['C06']), 'W4A-m2': ('A', ['C06']),
 'W4B-m1': ('B', ['C20']), 'W4B-m2': ('B', ['C20']),
 'W4C-m1': ('C', ['C04','C06']), 'W4C-m2': ('C', ['C04','C06']),
 'W4D-m1': ('D', ['C03']), 'W4D-m2': ('D', ['C03','C06']),
 'W4E-m1': ('E', ['C07','C06']), 'W4E-m2': ('E', ['C07']),
 'W4F-m1': ('F', ['C12']), 'W4F-m2': ('F', ['C12','C06']),
}
PLAN5 = {
 'W5A-m1': ('A', ['C08']), 'W5A-m2': ('A', ['C08']),
 'W5B-m1': ('B', ['C05']), 'W5B-m2': ('B', ['C05']),
 'W5C-m1': ('C', ['C17']), 'W5C-m2': ('C', ['C17']),
 'W5D-m1': ('D', ['C19']), 'W5D-m2': ('D', ['C19']),
 'W5E-m1': ('E', ['C12']), 'W5E-m2': ('E', ['C12']),
 'W5F-m1': ('F', ['C09']), 'W5F-m2': ('F', ['C09']),
}
PLAN6 = {
 'W6A-m1': ('A', ['C01']), 'W6A-m2': ('A', ['C01']),
 'W6B-m1': ('B', ['C02']), 'W6B-m2': ('B', ['C02']),
 'W6C-m1': ('C', ['C03']), 'W6C-m2': ('C', ['C03']),
 'W6D-m1': ('D', ['C04']), 'W6D-m2': ('D', ['C04']),
 'W6E-m1': ('E', ['C06']), 'W6E-m2': ('E', ['C06']),
 'W6F-m1': ('F', ['C07']), 'W6F-m2': ('F', ['C07']),
 'W6G-m1': ('G', ['C10','C07']), 'W6G-m2': ('G', ['C10','C07','C09']),
 'W6H-m1': ('H', ['C20']), 'W6H-m2': ('H', ['C20']),
}
PLAN7 = {
 'W7A-m1': ('A', ['C05']), 'W7A-m2': ('A', ['C05']),
 'W7B-m1': ('B', ['C08']), 'W7B-m2': ('B', ['C08']),
 'W7C-m1': ('C', ['C09']), 'W7C-m2': ('C', ['C09']),
 'W7D-m1': ('D', ['C12']), 'W7D-m2': ('D', ['C12']),
 'W7E-m1': ('E', ['C17']), 'W7E-m2': ('E', ['C17']),
 'W7F-m1': ('F', ['C19']), 'W7F-m2': ('F', ['C19']),
 'W7G-m1': ('G', ['C20']), 'W7G-m2': ('G', ['C20']),
 'W7H-m1': ('H', ['C03']), 'W7H-m2': ('H', ['C03']),
}
PLAN8 = {
 'W8A-m1': ('A', ['C10']), 'W8A-m2': ('A', ['C10']),
 'W8B-m1': ('B', ['C10']), 'W8B-m2': ('B', ['C10']),
 'W8C-m1': ('C', ['C20']), 'W8C-m2': ('C', ['C20']),
 'W8D-m1': ('D', ['C20']), 'W8D-m2': ('D', ['C20']),
 'W8E-m1': ('E', ['C02']), 'W8E-m2': ('E', ['C02']),
 'W8F-m1': ('F', ['C04']), 'W8F-m2': ('F', ['C04']),
 'W8G-m1': ('G', ['C06']), 'W8G-m2': ('G', ['C06']),
 'W8H-m1': ('H', ['C01']), 'W8H-m2': ('H', ['C01']),
}
PLAN9 = {
 'W9A-m1': ('A', ['C07']), 'W9A-m2': ('A', ['C07']),
 'W9B-m1': ('B', ['C09']), 'W9B-m2': ('B', ['C09']),
 'W9C-m1': ('C', ['C05']), 'W9C-m2': ('C', ['C05']),
 'W9D-m1': ('D', ['C19']), 'W9D-m2': ('D', ['C19']),
 'W9E-m1': ('E', ['C12']), 'W9E-m2': ('E', ['C12']),
 'W9F-m1': ('F', ['C17']), 'W9F-m2': ('F', ['C17']),
 'W9G-m1': ('G', ['C08']), 'W9G-m2': ('G', ['C08']),
 'W9H-m1': ('H', ['C04']), 'W9H-m2': ('H', ['C04']),
}
PLAN10 = {
 'WAA-m1': ('A', ['C02']), 'WAA-m2': ('A', ['C02']),
 'WAB-m1': ('B', ['C01']), 'WAB-m2': ('B', ['C01']),
 'WAC-m1': ('C', ['C03']), 'WAC-m2': ('C', ['C03']),
 'WAD-m1': ('D', ['C06']), 'WAD-m2': ('D', ['C06']),
 'WAE-m1': ('E', ['C20']), 'WAE-m2': ('E', ['C20']),
 'WAF-m1': ('F', ['C09']), 'WAF-m2': ('F', ['C09']),
 'WAG-m1': ('G', ['C07']), 'WAG-m2': ('G', ['C07']),
 'WAH-m1': ('H', ['C05']), 'WAH-m2': ('H', ['C05']),
 'WAI-m1': ('I', ['C10']), 'WAI-m2': ('I', ['C10']),
 'WAJ-m1': ('J', ['C12']), 'WAJ-m2': ('J', ['C12']),
}
PLAN11 = {
 'WBA-m1': ('A', ['C04']), 'WBA-m2': ('A', ['C04']),
 'WBB-m1': ('B', ['C06']), 'WBB-m2': ('B', ['C06']),
 'WBC-m1': ('C', ['C07']), 'WBC-m2': ('C', ['C07']),
 'WBD-m1': ('D', ['C08']), 'WBD-m2': ('D', ['C08']),
 'WBE-m1': ('E', ['C09']), 'WBE-m2': ('E', ['C09']),
 'WBF-m1': ('F', ['C01']), 'WBF-m2': ('F', ['C01']),
 'WBG-m1': ('G', ['C17']), 'WBG-m2': ('G', ['C17']),
 'WBH-m1': ('H', ['C19']), 'WBH-m2': ('H', ['C19']),
 'WBI-m1': ('I', ['C20']), 'WBI-m2': ('I', ['C20']),
 'WBJ-m1': ('J', ['C03']), 'WBJ-m2': ('J', ['C03']),
}
PLAN12 = {
 'WCA-m1': ('A', ['C06']), 'WCA-m2': ('A', ['C06']),
 'WCB-m1': ('B', ['C20']), 'WCB-m2': ('B', ['C20']),
 'WCC-m1': ('C', ['C12']), 'WCC-m2': ('C', ['C12']),
 'WCD-m1': ('D', ['C03']), 'WCD-m2': ('D', ['C03']),
 'WCE-m1': ('E', ['C04']), 'WCE-m2': ('E', ['C04']),
 'WCF-m1': ('F', ['C07']), 'WCF-m2': ('F', ['C07']),
 'WCG-m1': ('G', ['C19']), 'WCG-m2': ('G', ['C19']),
 'WCH-m1': ('H', ['C05']), 'WCH-m2': ('H', ['C05']),
 'WCI-m1': ('I', ['C09']), 'WCI-m2': ('I', ['C09']),
 'WCJ-m1': ('J', ['C10']), 'WCJ-m2': ('J', ['C10']),
}
PLAN13 = {
 'WDA-m1': ('A', ['C10']), 'WDA-m2': ('A', ['C10']),
 'WDB-m1': ('B', ['C10']), 'WDB-m2': ('B', ['C10']),
 'WDC-m1': ('C', ['C20']), 'WDC-m2': ('C', ['C20']),
 'WDD-m1': ('D', ['C20']), 'WDD-m2': ('D', ['C20']),
 'WDE-m1': ('E', ['C07']), 'WDE-m2': ('E', ['C07']),
 'WDF-m1': ('F', ['C09']), 'WDF-m2': ('F', ['C09']),
 'WDG-m1': ('G', ['C08']), 'WDG-m2': ('G', ['C08']),
 'WDH-m1': ('H', ['C01']), 'WDH-m2': ('H', ['C01']),
}
PLAN14 = {
 'WEA-m1': ('A', ['C17']), 'WEA-m2': ('A', ['C17']),
 'WEB-m1': ('B', ['C02']), 'WEB-m2': ('B', ['C02']),
 'WEC-m1': ('C', ['C03']), 'WEC-m2': ('C', ['C03']),
 'WED-m1': ('D', ['C05']), 'WED-m2': ('D', ['C05']),
 'WEE-m1': ('E', ['C19']), 'WEE-m2': ('E', ['C19']),
 'WEF-m1': ('F', ['C12']), 'WEF-m2': ('F', ['C12']),
 'WEG-m1': ('G', ['C08']), 'WEG-m2': ('G', ['C08']),
 'WEH-m1': ('H', ['C09']), 'WEH-m2': ('H', ['C09']),
}
PLAN15 = {
 'WFA-m1': ('A', ['C12']), 'WFA-m2': ('A', ['C12']),
 'WFB-m1': ('B', ['C02']), 'WFB-m2': ('B', ['C02']),
 'WFC-m1': ('C', ['C06']), 'WFC-m2': ('C', ['C06']),
 'WFD-m1': ('D', ['C08']), 'WFD-m2': ('D', ['C08']),
 'WFE-m1': ('E', ['C09']), 'WFE-m2': ('E', ['C09']),
 'WFF-m1': ('F', ['C08']), 'WFF-m2': ('F', ['C08']),
 'WFG-m1': ('G', ['C10']), 'WFG-m2': ('G', ['C10']),
 'WFH-m1': ('H', ['C07']), 'WFH-m2': ('H', ['C07']),
}
PLAN16 = {
 'WGA-m1': ('A', ['C01']), 'WGA-m2': ('A', ['C01']),
 'WGB-m1': ('B', ['C10']), 'WGB-m2': ('B', ['C10']),
 'WGC-m1': ('C', ['C02']), 'WGC-m2': ('C', ['C02']),
 'WGD-m1': ('D', ['C09']), 'WGD-m2': ('D', ['C09']),
 'WGE-m1': ('E', ['C19']), 'WGE-m2': ('E', ['C19']),
 'WGF-m1': ('F', ['C03']), 'WGF-m2': ('F', ['C03']),
 'WGG-m1': ('G', ['C20']), 'WGG-m2': ('G', ['C20']),
 'WGH-m1': ('H', ['C05']), 'WGH-m2': ('H', ['C05']),
}
PLAN17 = {
 'WHA-m1': ('A', ['C01']), 'WHA-m2': ('A', ['C01']),
 'WHB-m1': ('B', ['C02']), 'WHB-m2': ('B', ['C02']),
 'WHC-m1': ('C', ['C08']), 'WHC-m2': ('C', ['C08']),
 'WHD-m1': ('D', ['C17']), 'WHD-m2': ('D', ['C17']),
 'WHE-m1': ('E', ['C06']), 'WHE-m2': ('E', ['C06']),
 'WHF-m1': ('F', ['C20']), 'WHF-m2': ('F', ['C20']),
 'WHG-m1': ('G', ['C10']), 'WHG-m2': ('G', ['C10']),
 'WHH-m1': ('H', ['C07']), 'WHH-m2': ('H', ['C07']),
}
PLAN18 = {
 'WIA-m1': ('A', ['C04']), 'WIA-m2': ('A', ['C04']),
 'WIB-m1': ('B', ['C05']), 'WIB-m2': ('B', ['C05']),
 'WIC-m1': ('C', ['C09']), 'WIC-m2': ('C', ['C09']),
 'WID-m1': ('D', ['C19']), 'WID-m2': ('D', ['C19']),
 'WIE-m1': ('E', ['C03']), 'WIE-m2': ('E', ['C03']),
 'WIF-m1': ('F', ['C12']), 'WIF-m2': ('F', ['C12']),
}
SRC = {}
for k, (d, checks) in PLAN18.items():
    PLAN[k] = checks
    SRC[k] = f'/tmp/mut18-{d}/out/{k.split("-")[1]}'
for k, (d, checks) in PLAN17.items():
    PLAN[k] = checks
    SRC[k] = f'/tmp/mut17-{d}/out/{k.split("-")[1]}'
for k, (d, checks) in PLAN16.items():
    PLAN[k] = checks
    SRC[k] = f'/tmp/mut16-{d}/out/{k.split("-")[1]}'
for k, (d, checks) in PLAN15.items():
    PLAN[k] = checks
    SRC[k] = f'/tmp/mut15-{d}/out/{k.split("-")[1]}'
for k, (d, checks) in PLAN14.items():
    PLAN[k] = checks
    SRC[k] = f'/tmp/mut14-{d}/out/{k.split("-")[1]}'
for k, (d, checks) in PLAN13.items():
    PLAN[k] = checks
    SRC[k] = f'/tmp/mut13-{d}/out/{k.split("-")[1]}'
for k, (d, checks) in PLAN12.items():
    PLAN[k] = checks
    SRC[k] = f'/tmp/mut12-{d}/out/{k.split("-")[1]}'
for k, (d, checks) in PLAN11.items():
    PLAN[k] = checks
    SRC[k] = f'/tmp/mut11-{d}/out/{k.split("-")[1]}'
for k, (d, checks) in PLAN10.items():
    PLAN[k] = checks
    SRC[k] = f'/tmp/mut10-{d}/out/{k.split("-")[1]}'
for k, (d, checks) in PLAN9.items():
    PLAN[k] = checks
    SRC[k] = f'/tmp/mut9-{d}/out/{k.split("-")[1]}'
for k, (d, checks) in PLAN8.items():
    PLAN[k] = checks
    SRC[k] = f'/tmp/mut8-{d}/out/{k.split("-")[1]}'
for k, (d, checks) in PLAN7.items():
    PLAN[k] = checks
    SRC[k] = f'/tmp/mut7-{d}/out/{k.split("-")[1]}'
for k, (d, checks) in PLAN6.items():
    PLAN[k] = checks
    SRC[k] = f'/tmp/mut6-{d}/out/{k.split("-")[1]}'
for k, (d, checks) in PLAN5.items():
    PLAN[k] = checks
    SRC[k] = f'/tmp/mut5-{d}/out/{k.split("-")[1]}'
for k, (d, checks) in PLAN4.items():
    PLAN[k] = checks
    SRC[k] = f'/tmp/mut4-{d}/out/{k.split("-")[1]}'
for k, (d, checks) in PLAN3.items():
    PLAN[k] = checks
    SRC[k] = f'/tmp/mut3-{d}/out/{k.split("-")[1]}'
for k, (d, checks) in PLAN2.items():
    PLAN[k] = checks
    SRC[k] = f'/tmp/mut2-{d}/out/{k.split("-")[1]}'
only = sys.argv[1:] 
for key, checks in PLAN.items():
    if only and key not in only: continue
    prop, m = key.split('-')
    src = SRC.get(key, f'/tmp/mut-{prop}/out/{m}')
    if not os.path.exists(src + '/patch.diff'):
        print(key, 'missing'); continue
    r = subprocess.run([ROOT + '/tools/evalmut.sh', src] + checks, capture_output=True, text=True)
    out = r.stdout
    mm = re.search(r'suite_exit=(\d+) demo_clean_exit=(\d+) demo_mutant_exit=(\d+)', out)
    if not mm:
        print(key, 'evaluation failed', out[-300:]); continue
    suite, dc, dm = map(int, mm.groups())
    results = {}
    oracles = {}
    for c in checks:
        m2 = re.search(rf'check {c} exit=(\d+): (\d+) violation lines', out)
        results[c] = int(m2.group(1)) if m2 else None
    for mo in re.finditer(r'VIOLATION property=(C\d+) .*\n\s+oracle=(\S+)', out):
        oracles.setdefault(mo.group(1), []).append(mo.group(2))
    meta = json.load(open(src + '/meta.json'))
    prop = meta.get('property', prop)
    confirmed = suite == 0 and dc == 0 and dm != 0
    meta.update({
        'id': key, 'breaks_property': prop, 'author': 'independent sub-agent given only the property text and a scratch worktree',
        'confirmed_by_me': {'applies_cleanly_and_suite_passes': suite == 0, 'demo_exit_on_clean_tree': dc, 'demo_exit_with_change': dm,
                            'how': 'tools/evalmut.sh: fresh scratch worktree of /repo HEAD, demo on the clean tree, git apply patch.diff, go build ./... && go test -vet=off -count=1 ./..., demo again'},
        'checks_run': {c: ('VIOLATION (exit 1)' if results[c] == 1 else 'no violation (exit 0)' if results[c] == 0 else f'exit {results[c]}') for c in checks},
        'oracles_that_fired': oracles,
        'caught_by': [c for c in checks if results[c] == 1],
        'check_cmd': 'git -C /repo apply /verif/seeded/%s/patch.diff && ./bin/check <property> quick ; git -C /repo checkout -- .' % key,
    })
    print(key, 'confirmed' if confirmed else 'NOT CONFIRMED', meta['checks_run'], flush=True)
    if not confirmed: continue
    dst = f'{ROOT}/seeded/{key}'
    shutil.rmtree(dst, ignore_errors=True)
    os.makedirs(dst)
    shutil.copy(src + '/patch.diff', dst)
    if os.path.isdir(src + '/demo'): shutil.copytree(src + '/demo', dst + '/demo')
    json.dump(meta, open(dst + '/meta.json', 'w'), indent=1)
