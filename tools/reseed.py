#!/usr/bin/env python3
"""Re-evaluate the changes filed under seeded/ against the current machinery (regression test of the checks):
tools/reseed.py [ids...]   - for each seeded/<id>: tools/evalmut.sh seeded/<id> <checks of its meta>, meta.json is updated.
Honours VERIF_DIR (default /verif), SHARD=i/n, SKIP_DEMO=1 (checks only)."""
import json, os, re, subprocess, sys, glob
ROOT = os.environ.get('VERIF_DIR', '/verif')
only = sys.argv[1:]
bad = []
shard = os.environ.get('SHARD')  # "i/n": every n-th change, starting with the i-th
for idx, d in enumerate(sorted(glob.glob(ROOT + '/seeded/*'))):
    key = os.path.basename(d)
    if only and key not in only: continue
    if shard and idx % int(shard.split('/')[1]) != int(shard.split('/')[0]): continue
    meta = json.load(open(d + '/meta.json'))
    checks = list(meta.get('checks_run', {}).keys()) or [meta['breaks_property']]
    if meta['breaks_property'] not in checks: checks.insert(0, meta['breaks_property'])
    r = subprocess.run([ROOT + '/tools/evalmut.sh', d] + checks, capture_output=True, text=True)
    out = r.stdout
    mm = re.search(r'suite_exit=(\d+) demo_clean_exit=(\d+) demo_mutant_exit=(\d+)', out)
    if not mm:
        print(key, 'EVALUATION FAILED', out[-300:].replace('\n', ' | '), flush=True); bad.append(key); continue
    suite, dc, dm = map(int, mm.groups())
    results, oracles = {}, {}
    for c in checks:
        m2 = re.search(rf'check {c} exit=(\d+): (\d+) violation lines', out)
        results[c] = int(m2.group(1)) if m2 else None
    for mo in re.finditer(r'VIOLATION property=(C\d+) .*\n\s+oracle=(\S+)', out):
        oracles.setdefault(mo.group(1), []).append(mo.group(2))
    meta['confirmed_by_me'].update({'applies_cleanly_and_suite_passes': suite == 0, 'demo_exit_on_clean_tree': dc, 'demo_exit_with_change': dm})
    meta['checks_run'] = {c: ('VIOLATION (exit 1)' if results[c] == 1 else 'no violation (exit 0)' if results[c] == 0 else f'exit {results[c]}') for c in checks}
    meta['oracles_that_fired'] = oracles
    meta['caught_by'] = [c for c in checks if results[c] == 1]
    json.dump(meta, open(d + '/meta.json', 'w'), indent=1)
    own = meta['breaks_property'] in meta['caught_by']
    flag = '' if (own and suite == 0 and dc == 0 and dm != 0) else '   <<<<<<'
    print(key, f'suite={suite} demo={dc}/{dm}', meta['checks_run'], flag, flush=True)
print('needs attention:', bad)
