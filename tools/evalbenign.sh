#!/bin/bash
# usage: tools/evalbenign.sh /tmp/ben-A/out/r1   -> applies a behaviour-preserving refactoring to a scratch
# worktree and runs every check against it: all must exit 0.
set -u
ROOT=${VERIF_DIR:-/verif}
M=$1
export GOFLAGS=-mod=mod GOPROXY=off GOSUMDB=off GOTOOLCHAIN=local
unset CI UPDATE_SNAPS
WT=$(mktemp -d /tmp/evalben-XXXX); rmdir $WT
git -C /repo worktree add -q --detach $WT HEAD || exit 2
trap 'git -C /repo worktree remove --force $WT >/dev/null 2>&1' EXIT
( cd $WT && git apply $M/patch.diff ) || { echo "$M: patch does not apply"; exit 2; }
if [ -n "${SKIP_SUITE:-}" ]; then s=0; else
( cd $WT && go build ./... && go test -vet=off -count=1 ./... >/dev/null 2>&1 ); s=$?
fi
res="$M suite=$s"
for c in ${BEN_CHECKS:-C01 C02 C03 C04 C05 C06 C07 C08 C09 C10 C12 C17 C19 C20}; do
  out=$(cd $ROOT && VERIF_REPO=$WT VERIF_WORLDS=${BEN_WORLDS:-4000} ./bin/simdrive check $c quick 2>&1); rc=$?
  res="$res $c=$rc"
  if [ $rc -ne 0 ]; then echo "$out" | grep -A3 "^VIOLATION\|^INFRA" | head -8 | cut -c1-300; fi
done
echo "$res"
