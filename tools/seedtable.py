#!/usr/bin/env python3
"""Print the markdown table of /verif/seeded for DESIGN.md section 13.6."""
import json, glob, os
rows = []
for d in sorted(glob.glob('/verif/seeded/*')):
    m = json.load(open(d + '/meta.json'))
    runs = ', '.join(f"{c}: {'caught' if 'VIOLATION' in r else 'not caught'}" for c, r in m['checks_run'].items())
    orc = '; '.join(f"{p}: {'/'.join(sorted(set(o)))}" for p, o in m.get('oracles_that_fired', {}).items())
    s = m['summary'].replace('|', '/').replace('\n', ' ')
    if len(s) > 230: s = s[:227] + '...'
    rows.append(f"| {m['id']} | {m['breaks_property']} | {s} | {runs} | {orc} |")
print('| id | breaks | change (author: sub-agent) | checks run on it | oracles that fired |')
print('|----|--------|----------------------------|------------------|--------------------|')
print('\n'.join(rows))
