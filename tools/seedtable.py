#!/usr/bin/env python3
"""Regenerate the table of /verif/seeded in DESIGN.md (between the seeded-table markers)."""
import json, glob, re
rows = []
tot = own = anyc = 0
for d in sorted(glob.glob('/verif/seeded/*')):
    m = json.load(open(d + '/meta.json'))
    tot += 1
    p = m['breaks_property']
    if p in m['caught_by']: own += 1
    if m['caught_by']: anyc += 1
    runs = ', '.join(f"{c} {'yes' if 'VIOLATION' in r else 'NO'}" for c, r in m['checks_run'].items())
    orc = m.get('oracles_that_fired', {}).get(p) or next(iter(m.get('oracles_that_fired', {}).values()), [])
    orc = '/'.join(sorted(set(orc)))[:90]
    s = re.sub(r'\s+', ' ', m['summary'].replace('|', '/'))
    if len(s) > 150: s = s[:147] + '...'
    needs = re.sub(r'\s+', ' ', m.get('needs', '').replace('|', '/'))
    if len(needs) > 110: needs = needs[:107] + '...'
    rows.append(f"| {m['id']} | {p} | {s} | {needs} | {runs} | {orc} |")
hdr = [f"{tot} changes written by independent sub-agents (each given only a property text and a scratch worktree), all confirmed by `tools/evalmut.sh` "
       f"(patch applies, unedited suite passes, the author's demonstration passes on the clean tree and fails with the change). "
       f"{own} are reported by the check of the property they were written to break, {anyc} by at least one check.", "",
       "| id | breaks | change | needs | checks run (caught?) | oracle(s) that fired |", "|----|----|----|----|----|----|"]
table = '\n'.join(hdr + rows)
p = '/verif/DESIGN.md'
s = open(p).read()
a, b = '<!-- seeded-table-begin -->', '<!-- seeded-table-end -->'
if a in s:
    s = s[:s.index(a) + len(a)] + '\n' + table + '\n' + s[s.index(b):]
    open(p, 'w').write(s)
    print('DESIGN.md updated:', tot, own, anyc)
else:
    print(table)
