#!/bin/bash
# usage: tools/evalmut.sh /tmp/mut-C04/out/m1 [checks...]
# Applies the change to a fresh scratch worktree, verifies (1) it builds and the
# unedited suite passes, (2) its demonstration fails with it and passes without,
# then runs the named /verif checks against that worktree (VERIF_REPO).
set -u
ROOT=${VERIF_DIR:-/verif}
M=$1; shift
export GOFLAGS=-mod=mod GOPROXY=off GOSUMDB=off GOTOOLCHAIN=local
unset CI UPDATE_SNAPS
WT=$(mktemp -d /tmp/evalmut-XXXX); rmdir $WT
git -C /repo worktree add -q --detach $WT HEAD || exit 2
trap 'git -C /repo worktree remove --force $WT >/dev/null 2>&1' EXIT
PROP=$(python3 -c "import json;print(json.load(open('$M/meta.json'))['property'])")
echo "== $M ($PROP)"
# demo on the clean tree
DEMO="$M/demo/run.sh"
copydemo() { for d in $M/demo/*/; do [ -d "$d" ] && cp -r "$d" $WT/ ; done; }
if [ -n "${SKIP_DEMO:-}" ]; then
  # regression of the checks only: the change was confirmed (suite, demonstration) when it was filed
  ( cd $WT && git apply $M/patch.diff ) || { echo "patch does not apply"; exit 2; }
  read s c0 c1 < <(python3 -c "import json;c=json.load(open('$M/meta.json'))['confirmed_by_me'];print(0 if c['applies_cleanly_and_suite_passes'] else 1, c['demo_exit_on_clean_tree'], c['demo_exit_with_change'])")
else
copydemo
( cd $WT && bash $DEMO >/tmp/evalmut-clean.log 2>&1 ); c0=$?
( cd $WT && git checkout -q -- . && git clean -fdq )
( cd $WT && git apply $M/patch.diff ) || { echo "patch does not apply"; exit 2; }
( cd $WT && go build ./... && go test -vet=off -count=1 ./... >/tmp/evalmut-suite.log 2>&1 ); s=$?
copydemo
( cd $WT && bash $DEMO >/tmp/evalmut-mut.log 2>&1 ); c1=$?
( cd $WT && git clean -fdq )
fi
echo "suite_exit=$s demo_clean_exit=$c0 demo_mutant_exit=$c1"
for c in "$@"; do
  out=$(cd $ROOT && VERIF_REPO=$WT VERIF_WORLDS=${MUT_WORLDS:-} ./bin/simdrive check $c ${TIER:-quick} 2>&1)
  rc=$?
  echo "check $c exit=$rc: $(echo "$out" | grep -c '^VIOLATION') violation lines"
  echo "$out" | grep -A2 '^VIOLATION\|^INFRA' | cut -c1-300 | head -12
done
