#!/bin/bash
# usage: tools/runall.sh [tier] [props...]  - runs the registered checks one after the other and prints one line each
tier=${1:-quick}; shift
props=${@:-C01 C02 C03 C04 C05 C06 C07 C08 C09 C10 C12 C17 C19 C20}
for p in $props; do
  out=$(/verif/bin/check $p $tier 2>&1); rc=$?
  echo "$p exit=$rc $(echo "$out" | grep '^simdrive: C' | sed 's/simdrive: //')"
  echo "$out" | grep -A3 '^VIOLATION\|^INFRA\|^CROSS\|^REACH' | cut -c1-400 | head -20
done
