module verif

go 1.22

require (
	github.com/goccy/go-yaml v1.15.13
	github.com/kr/pretty v0.3.1
	github.com/tidwall/gjson v1.18.0
	github.com/tidwall/pretty v1.2.1
)

require (
	github.com/kr/text v0.2.0 // indirect
	github.com/rogpeppe/go-internal v1.13.1 // indirect
	github.com/tidwall/match v1.1.1 // indirect
)
