// Package sched is the in-process part of the simulator: the seeded task
// scheduler, the operation log and the fault plan. The shim packages (simos,
// simsync, ...) call into it at every disk and lock operation.
//
// Execution under a simulation is strictly serial: exactly one task goroutine
// runs at a time, chosen by the scheduler from a PRNG. Hand-over is done with
// pipes driven by raw syscalls and mailboxes touched only in //go:norace
// functions, so the Go race detector sees none of the scheduler's ordering and
// still reports races between library accesses (DESIGN.md 5.2).
package sched

import (
	"fmt"
	"os"
	"sort"
	"sync"
	"syscall"
	"unsafe"

	"verif/sim/scen"
)

// ---------------------------------------------------------------- contexts

// Ctx identifies who performs an operation. All per-task state lives here so
// that no harness memory is shared between task goroutines (the race detector
// instruments runtime map and slice helpers even below //go:norace callers).
type Ctx struct {
	Task   int
	Call   int
	Exec   int
	ops    []scen.Op
	fcount map[string]int
}

var (
	mainCtx = &Ctx{Task: 0, Call: -1}
	allCtx  = []*Ctx{mainCtx}
	active  *Sim
	cur     *Task

	opSeq  int64
	faults []scen.Fault
	killFn func() // flushes the report and exits; installed by the harness
)

//go:norace
func curCtx() *Ctx {
	if active != nil && cur != nil {
		return cur.Ctx
	}
	return mainCtx
}

// BeginCall / EndCall bracket one Match* call of the current task.
//
//go:norace
func BeginCall(id, exec int) int64 {
	c := curCtx()
	c.Call, c.Exec = id, exec
	return opSeq
}

//go:norace
func EndCall() int64 {
	c := curCtx()
	c.Call, c.Exec = -1, 0
	return opSeq
}

//go:norace
func CurTask() int { return curCtx().Task }

//go:norace
func Seq() int64 { return opSeq }

// Ops merges the per-task operation logs in global order. Call it only when
// no task is running.
//
//go:norace
func Ops() []scen.Op {
	var out []scen.Op
	for _, c := range allCtx {
		out = append(out, c.ops...)
	}
	sort.Slice(out, func(i, j int) bool { return out[i].Seq < out[j].Seq })
	return out
}

//go:norace
func SetFaults(f []scen.Fault, kill func()) {
	faults = f
	killFn = kill
}

// ---------------------------------------------------------------- operations

// OpRec is one disk operation in flight.
type OpRec struct {
	op    scen.Op
	c     *Ctx
	Fault *scen.Fault
}

func hashStr(s string) uint64 {
	h := uint64(14695981039346656037)
	for i := 0; i < len(s); i++ {
		h ^= uint64(s[i])
		h *= 1099511628211
	}
	return h
}

// Enter is called by a shim before it performs a disk operation: it yields to
// the scheduler, numbers the operation and consults the fault plan.
func Enter(kind, path, arg string, mut bool) *OpRec {
	yieldOp(hashStr(kind), hashStr(path), windowOp(kind))
	c := curCtx()
	r := &OpRec{c: c, op: scen.Op{Seq: nextSeq(), Task: c.Task, Call: c.Call, Exec: c.Exec, Kind: kind, Path: path, Arg: arg, Mut: mut}}
	if len(faults) > 0 {
		r.Fault = matchFault(kind, path, arg, c)
		if r.Fault != nil {
			r.op.Fault = true
			r.op.RO = r.Fault.Kind == "rofile" || r.Fault.Kind == "aofile"
			if r.Fault.Kill {
				r.op.Err = "KILL"
				c.ops = append(c.ops, r.op)
				if killFn != nil {
					killFn()
				}
				os.Exit(137)
			}
		}
	}
	return r
}

//go:norace
func nextSeq() int64 {
	opSeq++
	return opSeq
}

// Exists tells whether a nominal path exists on the simulated disk (set by simos).
var Exists func(nominal string) bool

// writeIntent: the operation asks for write access to an existing file.
func writeIntent(kind, arg string) bool {
	switch kind {
	case "writefile", "truncate":
		return true
	case "openfile":
		return contains(arg, "wr")
	}
	return false
}

func matchFault(kind, path, arg string, c *Ctx) *scen.Fault {
	for i := range faults {
		f := &faults[i]
		if f.Kind == "rofile" {
			// a read-only file: every request for write access to it is refused, reading,
			// renaming and unlinking are not
			if f.PathSuffix != "" && contains(path, f.PathSuffix) && writeIntent(kind, arg) && Exists != nil && Exists(path) {
				return f
			}
			continue
		}
		if f.Kind == "aofile" {
			// an append-only file (chattr +a): it can be read and opened for appending, every
			// other request for write access is refused
			if f.PathSuffix != "" && contains(path, f.PathSuffix) && writeIntent(kind, arg) && !(kind == "openfile" && contains(arg, "append") && !contains(arg, "trunc")) && Exists != nil && Exists(path) {
				return f
			}
			continue
		}
		if f.Kind != kind {
			continue
		}
		if f.CallID >= 0 && f.CallID != c.Call {
			continue
		}
		if f.CallID == -2 && c.Call != -1 {
			continue // only operations outside Match* calls (Clean)
		}
		if f.PathSuffix != "" && !contains(path, f.PathSuffix) {
			continue
		}
		key := fmt.Sprintf("%d|%s|%s|%d", i, kind, path, c.Call)
		if c.fcount == nil {
			c.fcount = map[string]int{}
		}
		c.fcount[key]++
		if c.fcount[key] == f.Nth {
			return f
		}
	}
	return nil
}

func contains(s, sub string) bool {
	for i := 0; i+len(sub) <= len(s); i++ {
		if s[i:i+len(sub)] == sub {
			return true
		}
	}
	return false
}

// SetMut lets the shim decide after the fact whether the op mutated the disk.
func (r *OpRec) SetMut(m bool) { r.op.Mut = m }

// Done records the result.
func (r *OpRec) Done(n int64, err error) {
	r.op.N = n
	if err != nil {
		r.op.Err = err.Error()
	}
	r.c.ops = append(r.c.ops, r.op)
}

// FaultErr returns the errno to inject, or nil.
func (r *OpRec) FaultErr() error {
	if r.Fault == nil {
		return nil
	}
	switch r.Fault.Err {
	case "ENOSPC":
		return syscall.ENOSPC
	case "EACCES":
		return syscall.EACCES
	case "ENOENT":
		return syscall.ENOENT
	case "EINTR":
		return syscall.EINTR
	case "EPERM":
		return syscall.EPERM
	case "":
		return nil
	}
	return syscall.EIO
}

// ---------------------------------------------------------------- scheduler

const (
	kLock = iota + 1
	kRLock
	kUnlock
	kRUnlock
	kTryLock
	kTryRLock
)

// pendOp is the mailbox a parked task leaves for the scheduler. Only plain
// words: the scheduler never follows a pointer into task-owned memory.
type pendOp struct {
	hk   uint64 // hash of the operation kind
	ho   uint64 // hash of the object (path or lock)
	win  bool   // a pre-emption right after this op opens a window
	lock uintptr
	lk   int
}

type Task struct {
	ID      int
	Name    string
	Ctx     *Ctx
	rfd     int
	wfd     int
	pend    pendOp
	done    bool
	tryOK   bool
	prio    int
	steps   int
	lastWin bool
}

type lockState struct {
	id      int
	writer  int // task id or -1
	readers map[int]int
	// writers that have called Lock while readers hold the lock: like sync.RWMutex, a
	// blocked Lock call keeps new readers out (which is what makes a recursive RLock a
	// deadlock). Whether and when a parked writer makes that call is a scheduler decision.
	waiting map[int]bool
}

type Sim struct {
	spec       scen.SchedSpec
	tasks      []*Task
	srfd       int
	swfd       int
	locks      map[uintptr]*lockState
	rng        *scen.Rand
	Decisions  []int
	Steps      int
	hash       uint64
	chash      uint64
	objUsers   map[uint64]map[int]bool
	seqlog     []stepRec
	Deadlock   string
	StepCap    bool
	ForcedMiss int
	changeAt   map[int]bool
	preempts   int
	running    *Task
	wg         sync.WaitGroup
	onAbort    func()
}

type stepRec struct {
	task int
	hk   uint64
	ho   uint64
}

func pipe() (int, int) {
	var p [2]int
	if err := syscall.Pipe2(p[:], syscall.O_CLOEXEC); err != nil {
		panic(err)
	}
	return p[0], p[1]
}

var oneByte = [1]byte{1}

//go:norace
func rawWrite(fd int) {
	for {
		_, _, e := syscall.Syscall(syscall.SYS_WRITE, uintptr(fd), uintptr(unsafe.Pointer(&oneByte[0])), 1)
		if e == 0 {
			return
		}
		if e != syscall.EINTR && e != syscall.EAGAIN {
			panic("sched: baton write: " + e.Error())
		}
	}
}

//go:norace
func rawRead(fd int) {
	var b [1]byte
	for {
		n, _, e := syscall.Syscall(syscall.SYS_READ, uintptr(fd), uintptr(unsafe.Pointer(&b[0])), 1)
		if e == 0 && n == 1 {
			return
		}
		if e == 0 && n == 0 {
			panic("sched: baton closed")
		}
		if e != syscall.EINTR && e != syscall.EAGAIN {
			panic("sched: baton read: " + e.Error())
		}
	}
}

// NewSim prepares a simulation. onAbort is called (on the scheduler goroutine)
// when the run deadlocks or exceeds its step budget.
func NewSim(spec scen.SchedSpec, onAbort func()) *Sim {
	s := &Sim{spec: spec, locks: map[uintptr]*lockState{}, rng: scen.NewRand(spec.Seed), objUsers: map[uint64]map[int]bool{}, onAbort: onAbort}
	s.srfd, s.swfd = pipe()
	if s.spec.MaxSteps == 0 {
		s.spec.MaxSteps = 20000
	}
	return s
}

// Go registers a task. Must be called before Run.
func (s *Sim) Go(name string, body func()) *Task {
	t := &Task{ID: len(s.tasks) + 1, Name: name}
	t.Ctx = &Ctx{Task: t.ID, Call: -1}
	allCtx = append(allCtx, t.Ctx)
	t.rfd, t.wfd = pipe()
	t.pend = pendOp{hk: 1}
	s.tasks = append(s.tasks, t)
	s.wg.Add(1)
	go func() {
		defer s.wg.Done()
		rawRead(t.rfd) // wait for the first grant
		defer taskEnd(s, t)
		body()
	}()
	return t
}

//go:norace
func taskEnd(s *Sim, t *Task) {
	t.done = true
	rawWrite(s.swfd)
}

// yieldOp parks the calling task until the scheduler picks it again.
//
//go:norace
func yieldOp(hk, ho uint64, win bool) {
	s := active
	if s == nil || cur == nil {
		return
	}
	t := cur
	t.pend = pendOp{hk: hk, ho: ho, win: win}
	rawWrite(s.swfd)
	rawRead(t.rfd)
}

// YieldLock is the yield point of the simsync shim. It returns only when the
// scheduler has granted the lock operation in its own lock table. The first
// result says whether a simulation is active, the second is the outcome of a
// TryLock / TryRLock.
//
//go:norace
func YieldLock(lock uintptr, lk int) (bool, bool) {
	s := active
	if s == nil || cur == nil {
		return false, false
	}
	t := cur
	t.pend = pendOp{hk: uint64(100 + lk), lock: lock, lk: lk, win: lk == kUnlock || lk == kRUnlock}
	rawWrite(s.swfd)
	rawRead(t.rfd)
	return true, t.tryOK
}

// YieldMem is the yield point of shared-memory containers (sync.Map): never blocked.
// The object is hashed by kind, not by address, so that schedule hashes replay.
func YieldMem(_ uintptr, op string) { yieldOp(hashStr(op), hashStr("sync.Map"), false) }

// Yield is a plain yield point (used by shims without disk access).
func Yield(kind, obj string) { yieldOp(hashStr(kind), hashStr(obj), false) }

//go:norace
func (s *Sim) lockOf(p uintptr) *lockState {
	ls := s.locks[p]
	if ls == nil {
		ls = &lockState{id: len(s.locks) + 1, writer: -1, readers: map[int]int{}, waiting: map[int]bool{}}
		s.locks[p] = ls
	}
	return ls
}

//go:norace
func (s *Sim) enabledTasks() []*Task {
	var out []*Task
	for _, t := range s.tasks {
		if t.done {
			continue
		}
		if t.pend.lock != 0 {
			ls := s.lockOf(t.pend.lock)
			switch t.pend.lk {
			case kLock:
				if ls.writer >= 0 || len(ls.readers) > 0 {
					// not free. While only readers hold it, a writer that has not done so yet may
					// "call Lock" (a step of its own, the task stays parked): see announces
					if !s.announces(t) {
						continue
					}
				}
			case kRLock:
				if ls.writer >= 0 || len(ls.waiting) > 0 {
					continue
				}
			}
		}
		out = append(out, t)
	}
	return out
}

// announces: choosing t now means "t calls Lock and blocks inside it" (readers hold the
// lock), not "t acquires the lock".
//
//go:norace
func (s *Sim) announces(t *Task) bool {
	if t.pend.lock == 0 || t.pend.lk != kLock {
		return false
	}
	ls := s.lockOf(t.pend.lock)
	return ls.writer < 0 && len(ls.readers) > 0 && !ls.waiting[t.ID]
}

//go:norace
func (s *Sim) grant(t *Task) {
	p := t.pend
	if p.lock == 0 {
		return
	}
	ls := s.lockOf(p.lock)
	t.pend.ho = uint64(ls.id) * 7919
	switch p.lk {
	case kLock:
		delete(ls.waiting, t.ID)
		ls.writer = t.ID
	case kRLock:
		ls.readers[t.ID]++
	case kUnlock:
		ls.writer = -1
	case kRUnlock:
		ls.readers[t.ID]--
		if ls.readers[t.ID] <= 0 {
			delete(ls.readers, t.ID)
		}
	case kTryLock:
		t.tryOK = ls.writer < 0 && len(ls.readers) == 0
		if t.tryOK {
			ls.writer = t.ID
		}
	case kTryRLock:
		t.tryOK = ls.writer < 0 && len(ls.waiting) == 0
		if t.tryOK {
			ls.readers[t.ID]++
		}
	}
}

// windowOp: operations right after which a pre-emption is most interesting.
func windowOp(kind string) bool {
	switch kind {
	case "read", "readfile", "truncate", "openfile", "fstat", "seek", "write":
		return true
	}
	return false
}

//go:norace
func (s *Sim) choose(en []*Task) *Task {
	step := len(s.Decisions)
	if step < len(s.spec.Forced) {
		want := s.spec.Forced[step]
		for _, t := range en {
			if t.ID == want {
				return t
			}
		}
		s.ForcedMiss++
	}
	if len(s.spec.Forced) > 0 {
		// replay beyond (or off) the recorded decisions: keep running the
		// current task, else the lowest id
		if s.running != nil {
			for _, t := range en {
				if t == s.running {
					return t
				}
			}
		}
		return en[0]
	}
	switch s.spec.Strategy {
	case "pct":
		if s.changeAt == nil {
			s.changeAt = map[int]bool{}
			for _, t := range s.tasks {
				t.prio = 1000 + s.rng.Intn(1000)*16 + t.ID
			}
			for i := 0; i < s.spec.Depth; i++ {
				s.changeAt[1+s.rng.Intn(150)] = true
			}
		}
		best := en[0]
		for _, t := range en {
			if t.prio > best.prio {
				best = t
			}
		}
		if s.changeAt[step] {
			s.preempts++
			best.prio = s.preempts // lowest so far
			best = en[0]
			for _, t := range en {
				if t.prio > best.prio {
					best = t
				}
			}
		}
		return best
	case "rtc":
		if s.running != nil && !s.running.done {
			for _, t := range en {
				if t == s.running {
					p := 0.02
					if t.lastWin {
						p = 0.3
					}
					if s.preempts < s.spec.Depth && len(en) > 1 && s.rng.Bool(p) {
						s.preempts++
						for {
							o := en[s.rng.Intn(len(en))]
							if o != t {
								return o
							}
						}
					}
					return t
				}
			}
		}
		return en[s.rng.Intn(len(en))]
	}
	return en[s.rng.Intn(len(en))]
}

// Run executes all registered tasks to completion under the seeded schedule.
//
//go:norace
func (s *Sim) Run() {
	active = s
	h := uint64(14695981039346656037)
	for {
		alive := 0
		for _, t := range s.tasks {
			if !t.done {
				alive++
			}
		}
		if alive == 0 {
			break
		}
		en := s.enabledTasks()
		if len(en) == 0 || s.Steps >= s.spec.MaxSteps {
			if len(en) == 0 {
				s.Deadlock = s.describeBlocked()
			} else {
				s.StepCap = true
			}
			s.finishHashes(h)
			active, cur = nil, nil
			s.onAbort()
			os.Exit(3)
		}
		t := s.choose(en)
		if s.announces(t) {
			// the writer now waits inside Lock: new readers are kept out from here on
			ls := s.lockOf(t.pend.lock)
			ls.waiting[t.ID] = true
			s.Decisions = append(s.Decisions, t.ID)
			s.Steps++
			h = (h ^ uint64(t.ID)) * 1099511628211
			h = (h ^ 0x77616974) * 1099511628211
			continue
		}
		s.grant(t)
		s.Decisions = append(s.Decisions, t.ID)
		s.Steps++
		h = (h ^ uint64(t.ID)) * 1099511628211
		h = (h ^ t.pend.hk) * 1099511628211
		h = (h ^ t.pend.ho) * 1099511628211
		s.seqlog = append(s.seqlog, stepRec{t.ID, t.pend.hk, t.pend.ho})
		if t.pend.ho != 0 {
			m := s.objUsers[t.pend.ho]
			if m == nil {
				m = map[int]bool{}
				s.objUsers[t.pend.ho] = m
			}
			m[t.ID] = true
		}
		t.lastWin = t.pend.win
		t.steps++
		s.running = t
		cur = t
		rawWrite(t.wfd)
		rawRead(s.srfd)
		cur = nil
	}
	s.finishHashes(h)
	active, cur = nil, nil
	s.wg.Wait() // real happens-before edge: task results are read after this
}

//go:norace
func (s *Sim) finishHashes(h uint64) {
	s.hash = h
	c := uint64(14695981039346656037)
	for _, r := range s.seqlog {
		if len(s.objUsers[r.ho]) >= 2 {
			c = (c ^ uint64(r.task)) * 1099511628211
			c = (c ^ r.hk) * 1099511628211
			c = (c ^ r.ho) * 1099511628211
		}
	}
	s.chash = c
}

func (s *Sim) Hash() uint64         { return s.hash }
func (s *Sim) ConflictHash() uint64 { return s.chash }

//go:norace
func (s *Sim) describeBlocked() string {
	out := ""
	for _, t := range s.tasks {
		if !t.done {
			what := "op"
			if t.pend.lock != 0 {
				what = fmt.Sprintf("lock-op %d on mu%d", t.pend.lk, s.lockOf(t.pend.lock).id)
			}
			out += fmt.Sprintf("task %d (%s) blocked at %s; ", t.ID, t.Name, what)
		}
	}
	return out
}

// Lock kinds for simsync.
const (
	KLock     = kLock
	KRLock    = kRLock
	KUnlock   = kUnlock
	KRUnlock  = kRUnlock
	KTryLock  = kTryLock
	KTryRLock = kTryRLock
)
