// Package sched is the in-process part of the simulator: the seeded task
// scheduler, the operation log and the fault plan. The shim packages (simos,
// simsync, ...) call into it at every disk and lock operation.
//
// Execution under a simulation is strictly serial: exactly one task goroutine
// runs at a time, chosen by the scheduler from a PRNG. Hand-over is done with
// pipes driven by raw syscalls and mailboxes touched only in //go:norace
// functions, so the Go race detector sees none of the scheduler's ordering and
// still reports races between library accesses (DESIGN.md 5.2).
package sched

import (
	"fmt"
	"hash/fnv"
	"os"
	"sync"
	"syscall"
	"unsafe"

	"verif/sim/scen"
)

// ---------------------------------------------------------------- contexts

// Ctx identifies who performs an operation.
type Ctx struct {
	Task int
	Call int
	Exec int
}

var (
	mainCtx = Ctx{Task: 0, Call: -1}
	active  *Sim
	cur     *Task

	opLog   []scen.Op
	opSeq   int64
	faults  []scen.Fault
	fcount  map[string]int
	Probes  = map[string]int{}
	killFn  func() // flushes the report and exits; installed by the harness
	logging = true
)

//go:norace
func curCtx() *Ctx {
	if active != nil && cur != nil {
		return &cur.Ctx
	}
	return &mainCtx
}

// BeginCall / EndCall bracket one Match* call of the current task.
//
//go:norace
func BeginCall(id, exec int) int64 {
	c := curCtx()
	c.Call, c.Exec = id, exec
	return opSeq
}

//go:norace
func EndCall() int64 {
	c := curCtx()
	c.Call, c.Exec = -1, 0
	return opSeq
}

//go:norace
func CurTask() int { return curCtx().Task }

//go:norace
func Seq() int64 { return opSeq }

//go:norace
func Ops() []scen.Op { return opLog }

//go:norace
func Probe(name string) { Probes[name]++ }

//go:norace
func SetFaults(f []scen.Fault, kill func()) {
	faults = f
	fcount = map[string]int{}
	killFn = kill
}

// ---------------------------------------------------------------- operations

// OpRec is one disk operation in flight.
type OpRec struct {
	op    scen.Op
	Fault *scen.Fault
}

// Enter is called by a shim before it performs a disk operation: it yields to
// the scheduler, numbers the operation and consults the fault plan.
//
//go:norace
func Enter(kind, path, arg string, mut bool) *OpRec {
	yield(kind, path, 0)
	c := curCtx()
	opSeq++
	r := &OpRec{op: scen.Op{Seq: opSeq, Task: c.Task, Call: c.Call, Exec: c.Exec, Kind: kind, Path: path, Arg: arg, Mut: mut}}
	if len(faults) > 0 {
		r.Fault = matchFault(kind, path, c)
		if r.Fault != nil {
			r.op.Fault = true
			if r.Fault.Kill {
				r.op.Err = "KILL"
				opLog = append(opLog, r.op)
				if killFn != nil {
					killFn()
				}
				os.Exit(137)
			}
		}
	}
	return r
}

//go:norace
func matchFault(kind, path string, c *Ctx) *scen.Fault {
	for i := range faults {
		f := &faults[i]
		if f.Kind != kind {
			continue
		}
		if f.CallID >= 0 && f.CallID != c.Call {
			continue
		}
		if f.PathSuffix != "" && !hasSuffix(path, f.PathSuffix) {
			continue
		}
		key := fmt.Sprintf("%d|%s|%s|%d", i, kind, path, c.Call)
		fcount[key]++
		if fcount[key] == f.Nth {
			return f
		}
	}
	return nil
}

func hasSuffix(s, suf string) bool { return len(s) >= len(suf) && s[len(s)-len(suf):] == suf }

// SetMut lets the shim decide after the fact whether the op mutated the disk.
func (r *OpRec) SetMut(m bool) { r.op.Mut = m }

// Done records the result.
//
//go:norace
func (r *OpRec) Done(n int64, err error) {
	r.op.N = n
	if err != nil {
		r.op.Err = err.Error()
	}
	if logging {
		opLog = append(opLog, r.op)
	}
}

// FaultErr returns the errno to inject, or nil.
func (r *OpRec) FaultErr() error {
	if r.Fault == nil {
		return nil
	}
	switch r.Fault.Err {
	case "ENOSPC":
		return syscall.ENOSPC
	case "EACCES":
		return syscall.EACCES
	case "ENOENT":
		return syscall.ENOENT
	case "EINTR":
		return syscall.EINTR
	case "":
		return nil
	}
	return syscall.EIO
}

// ---------------------------------------------------------------- scheduler

const (
	kLock = iota + 1
	kRLock
	kUnlock
	kRUnlock
	kTryLock
)

type pendOp struct {
	kind string
	obj  string
	lock uintptr
	lk   int
}

type Task struct {
	ID    int
	Name  string
	Ctx   Ctx
	rfd   int
	wfd   int
	pend  pendOp
	done  bool
	prio  int
	steps int
	last  string
}

type lockState struct {
	writer  int // task id or -1
	readers map[int]int
}

type Sim struct {
	spec       scen.SchedSpec
	tasks      []*Task
	srfd       int
	swfd       int
	locks      map[uintptr]*lockState
	lockIDs    map[uintptr]int
	rng        *scen.Rand
	Decisions  []int
	Steps      int
	hash       uint64
	chash      uint64
	objUsers   map[string]map[int]bool
	seqlog     []stepRec
	Deadlock   string
	StepCap    bool
	ForcedMiss int
	changeAt   map[int]bool
	preempts   int
	running    *Task
	wg         sync.WaitGroup
	onAbort    func()
}

type stepRec struct {
	task int
	kind string
	obj  string
}

func pipe() (int, int) {
	var p [2]int
	if err := syscall.Pipe2(p[:], syscall.O_CLOEXEC); err != nil {
		panic(err)
	}
	return p[0], p[1]
}

var oneByte = [1]byte{1}

//go:norace
func rawWrite(fd int) {
	for {
		_, _, e := syscall.Syscall(syscall.SYS_WRITE, uintptr(fd), uintptr(unsafe.Pointer(&oneByte[0])), 1)
		if e == 0 {
			return
		}
		if e != syscall.EINTR && e != syscall.EAGAIN {
			panic("sched: baton write: " + e.Error())
		}
	}
}

//go:norace
func rawRead(fd int) {
	var b [1]byte
	for {
		n, _, e := syscall.Syscall(syscall.SYS_READ, uintptr(fd), uintptr(unsafe.Pointer(&b[0])), 1)
		if e == 0 && n == 1 {
			return
		}
		if e == 0 && n == 0 {
			panic("sched: baton closed")
		}
		if e != syscall.EINTR && e != syscall.EAGAIN {
			panic("sched: baton read: " + e.Error())
		}
	}
}

// NewSim prepares a simulation. onAbort is called (on the scheduler goroutine)
// when the run deadlocks or exceeds its step budget; it must not return.
func NewSim(spec scen.SchedSpec, onAbort func()) *Sim {
	s := &Sim{spec: spec, locks: map[uintptr]*lockState{}, rng: scen.NewRand(spec.Seed), objUsers: map[string]map[int]bool{}, onAbort: onAbort}
	s.srfd, s.swfd = pipe()
	if s.spec.MaxSteps == 0 {
		s.spec.MaxSteps = 20000
	}
	return s
}

// Go registers a task. Must be called before Run.
func (s *Sim) Go(name string, body func()) *Task {
	t := &Task{ID: len(s.tasks) + 1, Name: name}
	t.Ctx = Ctx{Task: t.ID, Call: -1}
	t.rfd, t.wfd = pipe()
	t.pend = pendOp{kind: "start"}
	s.tasks = append(s.tasks, t)
	s.wg.Add(1)
	go func() {
		defer s.wg.Done()
		rawRead(t.rfd) // wait for the first grant
		defer taskEnd(s, t)
		body()
	}()
	return t
}

//go:norace
func taskEnd(s *Sim, t *Task) {
	t.done = true
	rawWrite(s.swfd)
}

// yield parks the calling task until the scheduler picks it again.
//
//go:norace
func yield(kind, obj string, lock uintptr) {
	yieldLock(kind, obj, lock, 0)
}

//go:norace
func yieldLock(kind, obj string, lock uintptr, lk int) {
	s := active
	if s == nil || cur == nil {
		return
	}
	t := cur
	t.pend = pendOp{kind: kind, obj: obj, lock: lock, lk: lk}
	rawWrite(s.swfd)
	rawRead(t.rfd)
}

// YieldLock is the yield point of the simsync shim. It returns only when the
// scheduler has granted the lock operation in its own lock table.
//
//go:norace
func YieldLock(lock uintptr, lk int) bool {
	if active == nil || cur == nil {
		return false
	}
	names := [...]string{"", "lock", "rlock", "unlock", "runlock", "trylock"}
	yieldLock(names[lk], lockName(lock), lock, lk)
	return true
}

//go:norace
func lockName(lock uintptr) string {
	s := active
	if s.lockIDs == nil {
		s.lockIDs = map[uintptr]int{}
	}
	id, ok := s.lockIDs[lock]
	if !ok {
		id = len(s.lockIDs) + 1
		s.lockIDs[lock] = id
	}
	return fmt.Sprintf("mu%d", id)
}

// Yield is a plain yield point (used by shims without disk access).
//
//go:norace
func Yield(kind, obj string) { yield(kind, obj, 0) }

//go:norace
func (s *Sim) enabledTasks() []*Task {
	var out []*Task
	for _, t := range s.tasks {
		if t.done {
			continue
		}
		if t.pend.lock != 0 {
			ls := s.locks[t.pend.lock]
			switch t.pend.lk {
			case kLock:
				if ls != nil && (ls.writer >= 0 || len(ls.readers) > 0) {
					continue
				}
			case kRLock:
				if ls != nil && ls.writer >= 0 {
					continue
				}
			}
		}
		out = append(out, t)
	}
	return out
}

//go:norace
func (s *Sim) grant(t *Task) {
	p := t.pend
	if p.lock == 0 {
		return
	}
	ls := s.locks[p.lock]
	if ls == nil {
		ls = &lockState{writer: -1, readers: map[int]int{}}
		s.locks[p.lock] = ls
	}
	switch p.lk {
	case kLock:
		ls.writer = t.ID
	case kRLock:
		ls.readers[t.ID]++
	case kUnlock:
		ls.writer = -1
	case kRUnlock:
		ls.readers[t.ID]--
		if ls.readers[t.ID] <= 0 {
			delete(ls.readers, t.ID)
		}
	}
}

// windowOp: operations right after which a pre-emption is most interesting.
func windowOp(kind string) bool {
	switch kind {
	case "read", "readfile", "truncate", "openfile", "unlock", "runlock", "stat", "seek", "write":
		return true
	}
	return false
}

//go:norace
func (s *Sim) choose(en []*Task) *Task {
	step := len(s.Decisions)
	if step < len(s.spec.Forced) {
		want := s.spec.Forced[step]
		for _, t := range en {
			if t.ID == want {
				return t
			}
		}
		s.ForcedMiss++
		// fall through to a deterministic default: keep running, else lowest id
		if s.running != nil {
			for _, t := range en {
				if t == s.running {
					return t
				}
			}
		}
		return en[0]
	}
	if len(s.spec.Forced) > 0 {
		// replay beyond the recorded prefix: run to completion, lowest id first
		if s.running != nil {
			for _, t := range en {
				if t == s.running {
					return t
				}
			}
		}
		return en[0]
	}
	switch s.spec.Strategy {
	case "pct":
		if s.changeAt == nil {
			s.changeAt = map[int]bool{}
			for _, t := range s.tasks {
				t.prio = 1000 + s.rng.Intn(1000)*16 + t.ID
			}
			for i := 0; i < s.spec.Depth; i++ {
				s.changeAt[1+s.rng.Intn(120)] = true
			}
		}
		best := en[0]
		for _, t := range en {
			if t.prio > best.prio {
				best = t
			}
		}
		if s.changeAt[step] {
			s.preempts++
			best.prio = s.preempts // lowest so far
			best = en[0]
			for _, t := range en {
				if t.prio > best.prio {
					best = t
				}
			}
		}
		return best
	case "rtc":
		if s.running != nil && !s.running.done {
			for _, t := range en {
				if t == s.running {
					p := 0.02
					if windowOp(t.last) {
						p = 0.25
					}
					if s.preempts < s.spec.Depth && len(en) > 1 && s.rng.Bool(p) {
						s.preempts++
						for {
							o := en[s.rng.Intn(len(en))]
							if o != t {
								return o
							}
						}
					}
					return t
				}
			}
		}
		return en[s.rng.Intn(len(en))]
	}
	return en[s.rng.Intn(len(en))]
}

// Run executes all registered tasks to completion under the seeded schedule.
//
//go:norace
func (s *Sim) Run() {
	active = s
	h := fnv.New64a()
	for {
		alive := 0
		for _, t := range s.tasks {
			if !t.done {
				alive++
			}
		}
		if alive == 0 {
			break
		}
		en := s.enabledTasks()
		if len(en) == 0 {
			s.Deadlock = s.describeBlocked()
			s.finishHashes(h.Sum64())
			active, cur = nil, nil
			s.onAbort()
			os.Exit(3)
		}
		if s.Steps >= s.spec.MaxSteps {
			s.StepCap = true
			s.finishHashes(h.Sum64())
			active, cur = nil, nil
			s.onAbort()
			os.Exit(3)
		}
		t := s.choose(en)
		s.grant(t)
		s.Decisions = append(s.Decisions, t.ID)
		s.Steps++
		fmt.Fprintf(h, "%d|%s|%s;", t.ID, t.pend.kind, t.pend.obj)
		s.seqlog = append(s.seqlog, stepRec{t.ID, t.pend.kind, t.pend.obj})
		if t.pend.obj != "" {
			m := s.objUsers[t.pend.obj]
			if m == nil {
				m = map[int]bool{}
				s.objUsers[t.pend.obj] = m
			}
			m[t.ID] = true
		}
		t.last = t.pend.kind
		t.steps++
		s.running = t
		cur = t
		rawWrite(t.wfd)
		rawRead(s.srfd)
		cur = nil
	}
	s.finishHashes(h.Sum64())
	active, cur = nil, nil
	s.wg.Wait() // real happens-before edge: task results are read after this
}

//go:norace
func (s *Sim) finishHashes(h uint64) {
	s.hash = h
	c := fnv.New64a()
	for _, r := range s.seqlog {
		if len(s.objUsers[r.obj]) >= 2 {
			fmt.Fprintf(c, "%d|%s|%s;", r.task, r.kind, r.obj)
		}
	}
	s.chash = c.Sum64()
}

func (s *Sim) Hash() uint64         { return s.hash }
func (s *Sim) ConflictHash() uint64 { return s.chash }

//go:norace
func (s *Sim) describeBlocked() string {
	out := ""
	for _, t := range s.tasks {
		if !t.done {
			out += fmt.Sprintf("task %d (%s) blocked at %s %s; ", t.ID, t.Name, t.pend.kind, t.pend.obj)
		}
	}
	return out
}

// Lock kinds for simsync.
const (
	KLock    = kLock
	KRLock   = kRLock
	KUnlock  = kUnlock
	KRUnlock = kRUnlock
	KTryLock = kTryLock
)

// TryGrant is used by TryLock shims: report whether the model lock is free and
// take it if so. Must be called right after YieldLock(..., KTryLock).
//
//go:norace
func TryGrant(lock uintptr, read bool) bool {
	s := active
	if s == nil || cur == nil {
		return true
	}
	ls := s.locks[lock]
	if ls == nil {
		ls = &lockState{writer: -1, readers: map[int]int{}}
		s.locks[lock] = ls
	}
	if read {
		if ls.writer >= 0 {
			return false
		}
		ls.readers[cur.ID]++
		return true
	}
	if ls.writer >= 0 || len(ls.readers) > 0 {
		return false
	}
	ls.writer = cur.ID
	return true
}
