// Package simparser replaces go/parser for package snaps at check time so that
// source files are read through the simulated disk.
package simparser

import (
	"go/ast"
	"go/parser"
	"go/token"
	"io/fs"

	"verif/sim/simos"
)

type Mode = parser.Mode

const (
	PackageClauseOnly    = parser.PackageClauseOnly
	ImportsOnly          = parser.ImportsOnly
	ParseComments        = parser.ParseComments
	Trace                = parser.Trace
	DeclarationErrors    = parser.DeclarationErrors
	SpuriousErrors       = parser.SpuriousErrors
	SkipObjectResolution = parser.SkipObjectResolution
	AllErrors            = parser.AllErrors
)

func ParseFile(fset *token.FileSet, filename string, src any, mode Mode) (*ast.File, error) {
	if src == nil {
		b, err := simos.ReadFile(filename)
		if err != nil {
			return nil, err
		}
		src = b
	}
	return parser.ParseFile(fset, filename, src, mode)
}

func ParseDir(fset *token.FileSet, path string, filter func(fs.FileInfo) bool, mode Mode) (map[string]*ast.Package, error) {
	return parser.ParseDir(fset, simos.Real(path), filter, mode)
}

func ParseExpr(x string) (ast.Expr, error) { return parser.ParseExpr(x) }

func ParseExprFrom(fset *token.FileSet, filename string, src any, mode Mode) (ast.Expr, error) {
	return parser.ParseExprFrom(fset, filename, src, mode)
}
