// Package simfilepath replaces path/filepath for package snaps at check time.
// Pure functions pass through; functions that touch the file system go through
// the simulated disk (simos).
package simfilepath

import (
	"io/fs"
	"path/filepath"
	"sort"
	"strings"

	"verif/sim/simos"
)

const (
	Separator     = filepath.Separator
	ListSeparator = filepath.ListSeparator
)

var (
	ErrBadPattern = filepath.ErrBadPattern
	SkipDir       = filepath.SkipDir
	SkipAll       = filepath.SkipAll
)

type WalkFunc = filepath.WalkFunc

func Base(p string) string                          { return filepath.Base(p) }
func Clean(p string) string                         { return filepath.Clean(p) }
func Dir(p string) string                           { return filepath.Dir(p) }
func Ext(p string) string                           { return filepath.Ext(p) }
func FromSlash(p string) string                     { return filepath.FromSlash(p) }
func ToSlash(p string) string                       { return filepath.ToSlash(p) }
func IsAbs(p string) bool                           { return filepath.IsAbs(p) }
func IsLocal(p string) bool                         { return filepath.IsLocal(p) }
func Join(elem ...string) string                    { return filepath.Join(elem...) }
func Match(pattern, name string) (bool, error)      { return filepath.Match(pattern, name) }
func Rel(basepath, targpath string) (string, error) { return filepath.Rel(basepath, targpath) }
func Split(p string) (string, string)               { return filepath.Split(p) }
func SplitList(p string) []string                   { return filepath.SplitList(p) }
func VolumeName(p string) string                    { return filepath.VolumeName(p) }

func Abs(p string) (string, error) { return simos.Nominal(p), nil }

func EvalSymlinks(p string) (string, error) {
	if _, err := simos.Lstat(p); err != nil {
		return "", err
	}
	// resolved by the kernel below the world's private root, then mapped back
	real, err := filepath.EvalSymlinks(simos.Real(p))
	if err != nil {
		return "", err
	}
	out := simos.Unreal(real)
	if !filepath.IsAbs(p) {
		if rel, rerr := filepath.Rel(simos.Nominal("."), out); rerr == nil {
			return rel, nil
		}
	}
	return out, nil
}

func Glob(pattern string) ([]string, error) {
	if _, err := filepath.Match(pattern, ""); err != nil {
		return nil, err
	}
	rel := !filepath.IsAbs(pattern)
	realPat := simos.Real(pattern)
	m, err := filepath.Glob(realPat)
	if err != nil {
		return nil, err
	}
	prefix := strings.TrimSuffix(simos.Real("/"), "/")
	out := make([]string, 0, len(m))
	for _, p := range m {
		n := strings.TrimPrefix(p, prefix)
		if rel {
			if r, err := filepath.Rel(simos.Nominal("."), n); err == nil {
				n = r
			}
		}
		out = append(out, n)
	}
	// one logged operation for the directory scan
	simos.Lstat(filepath.Dir(pattern))
	return out, nil
}

func Walk(root string, fn WalkFunc) error {
	info, err := simos.Lstat(root)
	if err != nil {
		err = fn(root, nil, err)
	} else {
		err = walk(root, info, fn)
	}
	if err == SkipDir || err == SkipAll {
		return nil
	}
	return err
}

func walk(path string, info fs.FileInfo, fn WalkFunc) error {
	if !info.IsDir() {
		return fn(path, info, nil)
	}
	entries, err := simos.ReadDir(path)
	err1 := fn(path, info, err)
	if err != nil || err1 != nil {
		return err1
	}
	names := make([]string, 0, len(entries))
	for _, e := range entries {
		names = append(names, e.Name())
	}
	sort.Strings(names)
	for _, name := range names {
		filename := filepath.Join(path, name)
		fi, err := simos.Lstat(filename)
		if err != nil {
			if err := fn(filename, fi, err); err != nil && err != SkipDir {
				return err
			}
		} else {
			err = walk(filename, fi, fn)
			if err != nil {
				if !fi.IsDir() || err != SkipDir {
					return err
				}
			}
		}
	}
	return nil
}

func WalkDir(root string, fn fs.WalkDirFunc) error {
	info, err := simos.Lstat(root)
	if err != nil {
		err = fn(root, nil, err)
	} else {
		err = walkDir(root, fs.FileInfoToDirEntry(info), fn)
	}
	if err == SkipDir || err == SkipAll {
		return nil
	}
	return err
}

func walkDir(path string, d fs.DirEntry, fn fs.WalkDirFunc) error {
	if err := fn(path, d, nil); err != nil || !d.IsDir() {
		if err == SkipDir && d.IsDir() {
			err = nil
		}
		return err
	}
	dirs, err := simos.ReadDir(path)
	if err != nil {
		err = fn(path, d, err)
		if err != nil {
			if err == SkipDir && d.IsDir() {
				err = nil
			}
			return err
		}
	}
	for _, d1 := range dirs {
		if err := walkDir(filepath.Join(path, d1.Name()), d1, fn); err != nil {
			if err == SkipDir {
				break
			}
			return err
		}
	}
	return nil
}
