// Package simsync replaces package sync for package snaps at check time.
// Mutex and RWMutex operations are yield points; the seeded scheduler keeps its
// own lock table and grants an operation only when it cannot block, after
// which the real lock is taken as well so that real happens-before edges exist
// exactly where the program creates them (and nowhere else).
package simsync

import (
	"sync"
	"unsafe"

	"verif/sim/sched"
)

type (
	WaitGroup = sync.WaitGroup
	Pool      = sync.Pool
	Cond      = sync.Cond
	Locker    = sync.Locker
)

func NewCond(l Locker) *Cond { return sync.NewCond(l) }

// Once: a second caller of the real sync.Once blocks inside the runtime while the
// first one is parked at a yield point inside f - a state the scheduler cannot see.
// The shim is a Once built from the scheduler-aware Mutex: same semantics (f runs
// once, later callers wait for it and then see its effects, a panicking f counts as
// done), same happens-before edges, but the waiting is visible to the scheduler.
type Once struct {
	m    Mutex
	done bool
}

func (o *Once) Do(f func()) {
	o.m.Lock()
	defer o.m.Unlock()
	if o.done {
		return
	}
	defer func() { o.done = true }()
	f()
}

func OnceFunc(f func()) func() {
	var o Once
	return func() { o.Do(f) }
}

func OnceValue[T any](f func() T) func() T {
	var (
		o Once
		v T
	)
	return func() T {
		o.Do(func() { v = f() })
		return v
	}
}

func OnceValues[T1, T2 any](f func() (T1, T2)) func() (T1, T2) {
	var (
		o  Once
		v1 T1
		v2 T2
	)
	return func() (T1, T2) {
		o.Do(func() { v1, v2 = f() })
		return v1, v2
	}
}

// Map: every operation of a sync.Map is a yield point (a check-then-act on a shared
// cache is two operations; the scheduler may run another test in between).
type Map struct {
	m sync.Map
}

func (m *Map) y(op string) { sched.YieldMem(uintptr(unsafe.Pointer(m)), op) }

func (m *Map) Load(key any) (any, bool) { m.y("map.load"); return m.m.Load(key) }
func (m *Map) Store(key, value any)     { m.y("map.store"); m.m.Store(key, value) }
func (m *Map) LoadOrStore(key, value any) (any, bool) {
	m.y("map.loadorstore")
	return m.m.LoadOrStore(key, value)
}
func (m *Map) LoadAndDelete(key any) (any, bool) {
	m.y("map.loadanddelete")
	return m.m.LoadAndDelete(key)
}
func (m *Map) Delete(key any)                  { m.y("map.delete"); m.m.Delete(key) }
func (m *Map) Swap(key, value any) (any, bool) { m.y("map.swap"); return m.m.Swap(key, value) }
func (m *Map) CompareAndSwap(key, old, new any) bool {
	m.y("map.cas")
	return m.m.CompareAndSwap(key, old, new)
}
func (m *Map) CompareAndDelete(key, old any) bool {
	m.y("map.cad")
	return m.m.CompareAndDelete(key, old)
}
func (m *Map) Range(f func(key, value any) bool) { m.y("map.range"); m.m.Range(f) }
func (m *Map) Clear()                            { m.y("map.clear"); m.m.Clear() }

type Mutex struct {
	mu sync.Mutex
}

func (m *Mutex) Lock() {
	sched.YieldLock(uintptr(unsafe.Pointer(m)), sched.KLock)
	m.mu.Lock()
}

func (m *Mutex) Unlock() {
	sched.YieldLock(uintptr(unsafe.Pointer(m)), sched.KUnlock)
	m.mu.Unlock()
}

func (m *Mutex) TryLock() bool {
	if sim, ok := sched.YieldLock(uintptr(unsafe.Pointer(m)), sched.KTryLock); sim {
		if ok {
			m.mu.Lock()
		}
		return ok
	}
	return m.mu.TryLock()
}

type RWMutex struct {
	mu sync.RWMutex
}

func (m *RWMutex) Lock() {
	sched.YieldLock(uintptr(unsafe.Pointer(m)), sched.KLock)
	m.mu.Lock()
}

func (m *RWMutex) Unlock() {
	sched.YieldLock(uintptr(unsafe.Pointer(m)), sched.KUnlock)
	m.mu.Unlock()
}

func (m *RWMutex) RLock() {
	sched.YieldLock(uintptr(unsafe.Pointer(m)), sched.KRLock)
	m.mu.RLock()
}

func (m *RWMutex) RUnlock() {
	sched.YieldLock(uintptr(unsafe.Pointer(m)), sched.KRUnlock)
	m.mu.RUnlock()
}

func (m *RWMutex) TryLock() bool {
	if sim, ok := sched.YieldLock(uintptr(unsafe.Pointer(m)), sched.KTryLock); sim {
		if ok {
			m.mu.Lock()
		}
		return ok
	}
	return m.mu.TryLock()
}

func (m *RWMutex) TryRLock() bool {
	if sim, ok := sched.YieldLock(uintptr(unsafe.Pointer(m)), sched.KTryRLock); sim {
		if ok {
			m.mu.RLock()
		}
		return ok
	}
	return m.mu.TryRLock()
}

type rlocker RWMutex

func (r *rlocker) Lock()   { (*RWMutex)(r).RLock() }
func (r *rlocker) Unlock() { (*RWMutex)(r).RUnlock() }

func (m *RWMutex) RLocker() Locker { return (*rlocker)(m) }
