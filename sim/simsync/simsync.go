// Package simsync replaces package sync for package snaps at check time.
// Mutex and RWMutex operations are yield points; the seeded scheduler keeps its
// own lock table and grants an operation only when it cannot block, after
// which the real lock is taken as well so that real happens-before edges exist
// exactly where the program creates them (and nowhere else).
package simsync

import (
	"sync"
	"unsafe"

	"verif/sim/sched"
)

type (
	Once      = sync.Once
	WaitGroup = sync.WaitGroup
	Map       = sync.Map
	Pool      = sync.Pool
	Cond      = sync.Cond
	Locker    = sync.Locker
)

func NewCond(l Locker) *Cond { return sync.NewCond(l) }

func OnceFunc(f func()) func() { return sync.OnceFunc(f) }

func OnceValue[T any](f func() T) func() T { return sync.OnceValue(f) }

type Mutex struct {
	mu sync.Mutex
}

func (m *Mutex) Lock() {
	sched.YieldLock(uintptr(unsafe.Pointer(m)), sched.KLock)
	m.mu.Lock()
}

func (m *Mutex) Unlock() {
	sched.YieldLock(uintptr(unsafe.Pointer(m)), sched.KUnlock)
	m.mu.Unlock()
}

func (m *Mutex) TryLock() bool {
	if sim, ok := sched.YieldLock(uintptr(unsafe.Pointer(m)), sched.KTryLock); sim {
		if ok {
			m.mu.Lock()
		}
		return ok
	}
	return m.mu.TryLock()
}

type RWMutex struct {
	mu sync.RWMutex
}

func (m *RWMutex) Lock() {
	sched.YieldLock(uintptr(unsafe.Pointer(m)), sched.KLock)
	m.mu.Lock()
}

func (m *RWMutex) Unlock() {
	sched.YieldLock(uintptr(unsafe.Pointer(m)), sched.KUnlock)
	m.mu.Unlock()
}

func (m *RWMutex) RLock() {
	sched.YieldLock(uintptr(unsafe.Pointer(m)), sched.KRLock)
	m.mu.RLock()
}

func (m *RWMutex) RUnlock() {
	sched.YieldLock(uintptr(unsafe.Pointer(m)), sched.KRUnlock)
	m.mu.RUnlock()
}

func (m *RWMutex) TryLock() bool {
	if sim, ok := sched.YieldLock(uintptr(unsafe.Pointer(m)), sched.KTryLock); sim {
		if ok {
			m.mu.Lock()
		}
		return ok
	}
	return m.mu.TryLock()
}

func (m *RWMutex) TryRLock() bool {
	if sim, ok := sched.YieldLock(uintptr(unsafe.Pointer(m)), sched.KTryRLock); sim {
		if ok {
			m.mu.RLock()
		}
		return ok
	}
	return m.mu.TryRLock()
}

type rlocker RWMutex

func (r *rlocker) Lock()   { (*RWMutex)(r).RLock() }
func (r *rlocker) Unlock() { (*RWMutex)(r).RUnlock() }

func (m *RWMutex) RLocker() Locker { return (*rlocker)(m) }
