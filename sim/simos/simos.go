// Package simos replaces package os for package snaps at check time. Every
// file-system operation is (1) a yield point of the seeded scheduler,
// (2) recorded in the operation log, (3) subject to the fault plan, and then
// (4) executed by the real kernel under the world's private root.
package simos

import (
	"errors"
	"fmt"
	"io"
	"io/fs"
	"os"
	"path/filepath"
	"strconv"
	"strings"
	"syscall"
	"time"

	"verif/sim/scen"
	"verif/sim/sched"
)

// ---- re-exported names --------------------------------------------------

type (
	FileInfo     = fs.FileInfo
	FileMode     = fs.FileMode
	DirEntry     = fs.DirEntry
	PathError    = fs.PathError
	LinkError    = os.LinkError
	SyscallError = os.SyscallError
	Signal       = os.Signal
	Process      = os.Process
)

const (
	O_RDONLY = os.O_RDONLY
	O_WRONLY = os.O_WRONLY
	O_RDWR   = os.O_RDWR
	O_APPEND = os.O_APPEND
	O_CREATE = os.O_CREATE
	O_EXCL   = os.O_EXCL
	O_SYNC   = os.O_SYNC
	O_TRUNC  = os.O_TRUNC

	ModeDir        = fs.ModeDir
	ModeAppend     = fs.ModeAppend
	ModeExclusive  = fs.ModeExclusive
	ModeTemporary  = fs.ModeTemporary
	ModeSymlink    = fs.ModeSymlink
	ModeDevice     = fs.ModeDevice
	ModeNamedPipe  = fs.ModeNamedPipe
	ModeSocket     = fs.ModeSocket
	ModeSetuid     = fs.ModeSetuid
	ModeSetgid     = fs.ModeSetgid
	ModeCharDevice = fs.ModeCharDevice
	ModeSticky     = fs.ModeSticky
	ModeIrregular  = fs.ModeIrregular
	ModeType       = fs.ModeType
	ModePerm       = fs.ModePerm

	PathSeparator     = os.PathSeparator
	PathListSeparator = os.PathListSeparator
	DevNull           = os.DevNull

	SEEK_SET = 0
	SEEK_CUR = 1
	SEEK_END = 2
)

var (
	ErrInvalid          = fs.ErrInvalid
	ErrPermission       = fs.ErrPermission
	ErrExist            = fs.ErrExist
	ErrNotExist         = fs.ErrNotExist
	ErrClosed           = fs.ErrClosed
	ErrNoDeadline       = os.ErrNoDeadline
	ErrDeadlineExceeded = os.ErrDeadlineExceeded
	ErrProcessDone      = os.ErrProcessDone

	Args      = os.Args
	Interrupt = os.Interrupt
	Kill      = os.Kill

	Stdin  = &File{f: os.Stdin, name: "/dev/stdin", std: true}
	Stdout = &File{f: os.Stdout, name: "/dev/stdout", std: true}
	Stderr = &File{f: os.Stderr, name: "/dev/stderr", std: true}
)

// Pure pass-throughs (process state that the lifetime owns for real).
func Getenv(k string) string            { return os.Getenv(k) }
func LookupEnv(k string) (string, bool) { return os.LookupEnv(k) }
func Setenv(k, v string) error          { return os.Setenv(k, v) }
func Unsetenv(k string) error           { return os.Unsetenv(k) }
func Environ() []string                 { return os.Environ() }
func ExpandEnv(s string) string         { return os.ExpandEnv(s) }
func Exit(code int)                     { os.Exit(code) }
func Getpid() int                       { return os.Getpid() }
func Getuid() int                       { return os.Getuid() }
func Hostname() (string, error)         { return os.Hostname() }
func IsNotExist(err error) bool         { return os.IsNotExist(err) }
func IsExist(err error) bool            { return os.IsExist(err) }
func IsPermission(err error) bool       { return os.IsPermission(err) }
func IsTimeout(err error) bool          { return os.IsTimeout(err) }
func IsPathSeparator(c uint8) bool      { return os.IsPathSeparator(c) }
func NewSyscallError(s string, e error) error {
	return os.NewSyscallError(s, e)
}
func SameFile(a, b FileInfo) bool { return os.SameFile(a, b) }
func Getwd() (string, error)      { return scen.NominalDir, nil }
func TempDir() string             { return "/tmp" }
func UserHomeDir() (string, error) {
	return "/home/sim", nil
}
func Executable() (string, error) { return scen.NominalDir + "/snaps.test", nil }

// ---- path translation -----------------------------------------------------

var root = os.Getenv("VERIF_ROOT")

// Nominal makes a library-side path absolute and clean.
func Nominal(p string) string {
	if p == "" {
		return p
	}
	if !filepath.IsAbs(p) {
		p = filepath.Join(scen.NominalDir, p)
	}
	return filepath.Clean(p)
}

// Unreal maps a path under the world's private root back to the library-side path.
func Unreal(real string) string {
	if root == "" {
		return real
	}
	for _, r := range []string{root, resolvedRoot()} {
		if real == r {
			return "/"
		}
		if strings.HasPrefix(real, r+"/") {
			return strings.TrimPrefix(real, r)
		}
	}
	return real
}

// resolvedRoot: the private root with its own symbolic links resolved (the scratch
// directory may live below one).
func resolvedRoot() string {
	if r, err := filepath.EvalSymlinks(root); err == nil {
		return r
	}
	return root
}

// Real maps a library-side path to the path under the world's private root.
func Real(p string) string {
	if root == "" {
		panic("simos: VERIF_ROOT not set")
	}
	if p == "" {
		return root + "/__empty__"
	}
	return root + Nominal(p)
}

func fixErr(err error, nominal string) error {
	if err == nil {
		return nil
	}
	var pe *fs.PathError
	if errors.As(err, &pe) && strings.HasPrefix(pe.Path, root) {
		return &fs.PathError{Op: pe.Op, Path: nominal, Err: pe.Err}
	}
	return err
}

func init() {
	sched.Exists = func(nominal string) bool { return exists(Real(nominal)) }
}

func exists(real string) bool {
	_, err := os.Lstat(real)
	return err == nil
}

// ---- whole-file operations ------------------------------------------------

func ReadFile(name string) ([]byte, error) {
	r := sched.Enter("readfile", Nominal(name), "", false)
	if e := r.FaultErr(); e != nil {
		err := &fs.PathError{Op: "open", Path: name, Err: e}
		r.Done(0, err)
		return nil, err
	}
	b, err := os.ReadFile(Real(name))
	err = fixErr(err, name)
	r.Done(int64(len(b)), err)
	return b, err
}

func WriteFile(name string, data []byte, perm FileMode) error {
	r := sched.Enter("writefile", Nominal(name), strconv.Itoa(len(data)), true)
	if r.Fault != nil {
		e := r.FaultErr()
		if r.Fault.Short > 0 && r.Fault.Short < len(data) {
			os.WriteFile(Real(name), data[:r.Fault.Short], perm)
		} else if r.Fault.Short == 0 {
			r.SetMut(false)
		}
		if e == nil {
			e = io.ErrShortWrite
		}
		err := &fs.PathError{Op: "write", Path: name, Err: e}
		r.Done(int64(r.Fault.Short), err)
		return err
	}
	err := fixErr(os.WriteFile(Real(name), data, perm), name)
	r.Done(int64(len(data)), err)
	return err
}

func Remove(name string) error {
	r := sched.Enter("remove", Nominal(name), "", true)
	if e := r.FaultErr(); e != nil {
		err := &fs.PathError{Op: "remove", Path: name, Err: e}
		r.SetMut(false)
		r.Done(0, err)
		return err
	}
	err := fixErr(os.Remove(Real(name)), name)
	if err != nil {
		r.SetMut(false)
	}
	r.Done(0, err)
	return err
}

func RemoveAll(name string) error {
	r := sched.Enter("removeall", Nominal(name), "", true)
	if e := r.FaultErr(); e != nil {
		err := &fs.PathError{Op: "removeall", Path: name, Err: e}
		r.SetMut(false)
		r.Done(0, err)
		return err
	}
	if !exists(Real(name)) {
		r.SetMut(false)
	}
	err := fixErr(os.RemoveAll(Real(name)), name)
	r.Done(0, err)
	return err
}

func Rename(oldpath, newpath string) error {
	r := sched.Enter("rename", Nominal(oldpath), Nominal(newpath), true)
	if e := r.FaultErr(); e != nil {
		err := &os.LinkError{Op: "rename", Old: oldpath, New: newpath, Err: e}
		r.SetMut(false)
		r.Done(0, err)
		return err
	}
	err := os.Rename(Real(oldpath), Real(newpath))
	if err != nil {
		r.SetMut(false)
		var le *os.LinkError
		if errors.As(err, &le) {
			err = &os.LinkError{Op: le.Op, Old: oldpath, New: newpath, Err: le.Err}
		}
	}
	r.Done(0, err)
	return err
}

func Mkdir(name string, perm FileMode) error {
	r := sched.Enter("mkdir", Nominal(name), "", true)
	if e := r.FaultErr(); e != nil {
		err := &fs.PathError{Op: "mkdir", Path: name, Err: e}
		r.SetMut(false)
		r.Done(0, err)
		return err
	}
	err := fixErr(os.Mkdir(Real(name), perm), name)
	if err != nil {
		r.SetMut(false)
	}
	r.Done(0, err)
	return err
}

func MkdirAll(name string, perm FileMode) error {
	r := sched.Enter("mkdirall", Nominal(name), "", false)
	if e := r.FaultErr(); e != nil {
		err := &fs.PathError{Op: "mkdir", Path: name, Err: e}
		r.Done(0, err)
		return err
	}
	r.SetMut(!exists(Real(name)))
	err := fixErr(os.MkdirAll(Real(name), perm), name)
	r.Done(0, err)
	return err
}

func MkdirTemp(dir, pattern string) (string, error) {
	if dir == "" {
		dir = TempDir()
	}
	r := sched.Enter("mkdirtemp", Nominal(dir), pattern, true)
	if e := r.FaultErr(); e != nil {
		err := &fs.PathError{Op: "mkdirtemp", Path: dir, Err: e}
		r.Done(0, err)
		return "", err
	}
	os.MkdirAll(Real(dir), 0o777)
	var p string
	var err error
	for try := 0; try < 10000; try++ {
		p = filepath.Join(Real(dir), tempName(pattern))
		err = os.Mkdir(p, 0o700)
		if !os.IsExist(err) {
			break
		}
	}
	r.Done(0, err)
	if err != nil {
		return "", fixErr(err, dir)
	}
	return strings.TrimPrefix(p, root), nil
}

func ReadDir(name string) ([]DirEntry, error) {
	r := sched.Enter("readdir", Nominal(name), "", false)
	if e := r.FaultErr(); e != nil {
		err := &fs.PathError{Op: "open", Path: name, Err: e}
		r.Done(0, err)
		return nil, err
	}
	l, err := os.ReadDir(Real(name))
	err = fixErr(err, name)
	r.Done(int64(len(l)), err)
	return l, err
}

func Stat(name string) (FileInfo, error) {
	r := sched.Enter("stat", Nominal(name), "", false)
	if e := r.FaultErr(); e != nil {
		err := &fs.PathError{Op: "stat", Path: name, Err: e}
		r.Done(0, err)
		return nil, err
	}
	fi, err := os.Stat(Real(name))
	err = fixErr(err, name)
	r.Done(0, err)
	return fi, err
}

func Lstat(name string) (FileInfo, error) {
	r := sched.Enter("lstat", Nominal(name), "", false)
	if e := r.FaultErr(); e != nil {
		err := &fs.PathError{Op: "lstat", Path: name, Err: e}
		r.Done(0, err)
		return nil, err
	}
	fi, err := os.Lstat(Real(name))
	err = fixErr(err, name)
	r.Done(0, err)
	return fi, err
}

func Truncate(name string, size int64) error {
	r := sched.Enter("truncate", Nominal(name), strconv.FormatInt(size, 10), true)
	if e := r.FaultErr(); e != nil {
		err := &fs.PathError{Op: "truncate", Path: name, Err: e}
		r.SetMut(false)
		r.Done(0, err)
		return err
	}
	err := fixErr(os.Truncate(Real(name), size), name)
	r.Done(0, err)
	return err
}

func Chmod(name string, mode FileMode) error {
	r := sched.Enter("chmod", Nominal(name), "", true)
	err := fixErr(os.Chmod(Real(name), mode), name)
	r.Done(0, err)
	return err
}

func Chtimes(name string, a, m time.Time) error {
	r := sched.Enter("chtimes", Nominal(name), "", true)
	err := fixErr(os.Chtimes(Real(name), a, m), name)
	r.Done(0, err)
	return err
}

func Symlink(oldname, newname string) error {
	r := sched.Enter("symlink", Nominal(newname), oldname, true)
	err := os.Symlink(oldname, Real(newname))
	r.Done(0, err)
	return err
}

func Readlink(name string) (string, error) {
	r := sched.Enter("readlink", Nominal(name), "", false)
	s, err := os.Readlink(Real(name))
	r.Done(0, err)
	return s, fixErr(err, name)
}

func Link(oldname, newname string) error {
	r := sched.Enter("link", Nominal(newname), Nominal(oldname), true)
	err := os.Link(Real(oldname), Real(newname))
	r.Done(0, err)
	return err
}

func DirFS(dir string) fs.FS { return os.DirFS(Real(dir)) }

// ---- files ------------------------------------------------------------------

// File wraps a real *os.File opened under the private root.
type File struct {
	f    *os.File
	name string // as given by the caller
	nom  string
	std  bool
	app  bool // opened with O_APPEND
}

func Open(name string) (*File, error) { return OpenFile(name, O_RDONLY, 0) }

func Create(name string) (*File, error) {
	return OpenFile(name, O_RDWR|O_CREATE|O_TRUNC, 0o666)
}

func flagString(flag int) string {
	var p []string
	switch flag & (O_RDONLY | O_WRONLY | O_RDWR) {
	case O_RDONLY:
		p = append(p, "rd")
	case O_WRONLY:
		p = append(p, "wr")
	case O_RDWR:
		p = append(p, "rdwr")
	}
	if flag&O_APPEND != 0 {
		p = append(p, "append")
	}
	if flag&O_CREATE != 0 {
		p = append(p, "create")
	}
	if flag&O_TRUNC != 0 {
		p = append(p, "trunc")
	}
	if flag&O_EXCL != 0 {
		p = append(p, "excl")
	}
	return strings.Join(p, "|")
}

func OpenFile(name string, flag int, perm FileMode) (*File, error) {
	r := sched.Enter("openfile", Nominal(name), flagString(flag), false)
	if e := r.FaultErr(); e != nil {
		err := &fs.PathError{Op: "open", Path: name, Err: e}
		r.Done(0, err)
		return nil, err
	}
	real := Real(name)
	before := exists(real)
	var size int64
	if before {
		if fi, err := os.Stat(real); err == nil {
			size = fi.Size()
		}
	}
	f, err := os.OpenFile(real, flag, perm)
	if err == nil {
		if (!before && flag&O_CREATE != 0) || (before && flag&O_TRUNC != 0 && size > 0) {
			r.SetMut(true)
		}
	}
	err = fixErr(err, name)
	r.Done(0, err)
	if err != nil {
		return nil, err
	}
	return &File{f: f, name: name, nom: Nominal(name), app: flag&O_APPEND != 0}, nil
}

func CreateTemp(dir, pattern string) (*File, error) {
	if dir == "" {
		dir = TempDir()
	}
	r := sched.Enter("createtemp", Nominal(dir), pattern, true)
	if e := r.FaultErr(); e != nil {
		err := &fs.PathError{Op: "createtemp", Path: dir, Err: e}
		r.SetMut(false)
		r.Done(0, err)
		return nil, err
	}
	// the random part of the name is one more source of nondeterminism: it comes from a
	// per-process counter, so that the same history produces the same names (replay, and
	// the differential oracles compare disks of two executions)
	var f *os.File
	var err error
	for try := 0; try < 10000; try++ {
		f, err = os.OpenFile(filepath.Join(Real(dir), tempName(pattern)), os.O_RDWR|os.O_CREATE|os.O_EXCL, 0o600)
		if !os.IsExist(err) {
			break
		}
	}
	r.Done(0, err)
	if err != nil {
		return nil, fixErr(err, dir)
	}
	n := strings.TrimPrefix(f.Name(), root)
	return &File{f: f, name: n, nom: n}, nil
}

var tempSeq int

// tempName: like os.CreateTemp, the last "*" of the pattern (or its end) receives the
// variable part - a counter instead of a random number. Only called from the one
// runnable task (the scheduler serialises everything), so the plain counter is safe.
func tempName(pattern string) string {
	tempSeq++
	v := fmt.Sprintf("%09d", tempSeq)
	if i := strings.LastIndex(pattern, "*"); i >= 0 {
		return pattern[:i] + v + pattern[i+1:]
	}
	return pattern + v
}

func (f *File) Name() string { return f.name }
func (f *File) Fd() uintptr  { return f.f.Fd() }

func (f *File) Read(b []byte) (int, error) {
	if f.std {
		return f.f.Read(b)
	}
	r := sched.Enter("read", f.nom, strconv.Itoa(len(b)), false)
	if e := r.FaultErr(); e != nil {
		err := &fs.PathError{Op: "read", Path: f.name, Err: e}
		r.Done(0, err)
		return 0, err
	}
	n, err := f.f.Read(b)
	if err == io.EOF {
		r.Done(int64(n), nil)
	} else {
		r.Done(int64(n), err)
	}
	return n, err
}

func (f *File) ReadAt(b []byte, off int64) (int, error) {
	r := sched.Enter("readat", f.nom, strconv.Itoa(len(b)), false)
	if e := r.FaultErr(); e != nil {
		err := &fs.PathError{Op: "read", Path: f.name, Err: e}
		r.Done(0, err)
		return 0, err
	}
	n, err := f.f.ReadAt(b, off)
	r.Done(int64(n), nil)
	return n, err
}

func (f *File) write(kind string, b []byte, do func([]byte) (int, error)) (int, error) {
	if f.std {
		return do(b)
	}
	arg := strconv.Itoa(len(b))
	if f.app && len(b) > 2 && b[0] == '\n' && b[1] == '[' {
		// an entry header is being written: keep it in the log (ground truth for "this
		// process addressed that slot")
		if i := strings.IndexByte(string(b[1:]), '\n'); i > 0 && i < 300 {
			arg += " " + string(b[1:1+i])
		}
	}
	r := sched.Enter(kind, f.nom, arg, len(b) > 0)
	if r.Fault != nil {
		e := r.FaultErr()
		n := 0
		if r.Fault.Short > 0 && r.Fault.Short < len(b) {
			n, _ = do(b[:r.Fault.Short])
		} else {
			r.SetMut(false)
		}
		var err error
		if e != nil {
			err = &fs.PathError{Op: "write", Path: f.name, Err: e}
		} else if !r.Fault.ShortOK {
			err = io.ErrShortWrite
		}
		r.Done(int64(n), err)
		return n, err
	}
	n, err := do(b)
	r.Done(int64(n), err)
	return n, err
}

func (f *File) Write(b []byte) (int, error) { return f.write("write", b, f.f.Write) }
func (f *File) WriteString(s string) (int, error) {
	return f.write("write", []byte(s), f.f.Write)
}
func (f *File) WriteAt(b []byte, off int64) (int, error) {
	return f.write("writeat", b, func(p []byte) (int, error) { return f.f.WriteAt(p, off) })
}

func (f *File) ReadFrom(rd io.Reader) (int64, error) {
	b, err := io.ReadAll(rd)
	if err != nil {
		return 0, err
	}
	n, err := f.Write(b)
	return int64(n), err
}

func (f *File) Seek(offset int64, whence int) (int64, error) {
	r := sched.Enter("seek", f.nom, strconv.FormatInt(offset, 10)+"/"+strconv.Itoa(whence), false)
	if e := r.FaultErr(); e != nil {
		err := &fs.PathError{Op: "seek", Path: f.name, Err: e}
		r.Done(0, err)
		return 0, err
	}
	n, err := f.f.Seek(offset, whence)
	r.Done(n, err)
	return n, err
}

func (f *File) Truncate(size int64) error {
	r := sched.Enter("truncate", f.nom, strconv.FormatInt(size, 10), true)
	if e := r.FaultErr(); e != nil {
		err := &fs.PathError{Op: "truncate", Path: f.name, Err: e}
		r.SetMut(false)
		r.Done(0, err)
		return err
	}
	if fi, err := f.f.Stat(); err == nil && fi.Size() == size {
		r.SetMut(false)
	}
	err := f.f.Truncate(size)
	r.Done(0, err)
	return err
}

func (f *File) Stat() (FileInfo, error) {
	r := sched.Enter("fstat", f.nom, "", false)
	if e := r.FaultErr(); e != nil {
		err := &fs.PathError{Op: "stat", Path: f.name, Err: e}
		r.Done(0, err)
		return nil, err
	}
	fi, err := f.f.Stat()
	r.Done(0, err)
	return fi, err
}

func (f *File) Sync() error {
	r := sched.Enter("sync", f.nom, "", false)
	if e := r.FaultErr(); e != nil {
		err := &fs.PathError{Op: "sync", Path: f.name, Err: e}
		r.Done(0, err)
		return err
	}
	err := f.f.Sync()
	r.Done(0, err)
	return err
}

func (f *File) Close() error {
	if f.std {
		return nil
	}
	r := sched.Enter("close", f.nom, "", false)
	err := f.f.Close() // the descriptor is always really closed
	if e := r.FaultErr(); e != nil {
		err = &fs.PathError{Op: "close", Path: f.name, Err: e}
	}
	r.Done(0, err)
	return err
}

func (f *File) Chmod(mode FileMode) error { return f.f.Chmod(mode) }

func (f *File) ReadDir(n int) ([]DirEntry, error) {
	r := sched.Enter("freaddir", f.nom, "", false)
	l, err := f.f.ReadDir(n)
	r.Done(int64(len(l)), err)
	return l, err
}

func (f *File) Readdir(n int) ([]FileInfo, error) {
	r := sched.Enter("freaddir", f.nom, "", false)
	l, err := f.f.Readdir(n)
	r.Done(int64(len(l)), err)
	return l, err
}

func (f *File) Readdirnames(n int) ([]string, error) {
	r := sched.Enter("freaddir", f.nom, "", false)
	l, err := f.f.Readdirnames(n)
	r.Done(int64(len(l)), err)
	return l, err
}

func (f *File) SetDeadline(t time.Time) error      { return f.f.SetDeadline(t) }
func (f *File) SetReadDeadline(t time.Time) error  { return f.f.SetReadDeadline(t) }
func (f *File) SetWriteDeadline(t time.Time) error { return f.f.SetWriteDeadline(t) }
func (f *File) SyscallConn() (syscall.RawConn, error) {
	return f.f.SyscallConn()
}
