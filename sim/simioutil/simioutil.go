// Package simioutil replaces io/ioutil for package snaps at check time.
package simioutil

import (
	"io"
	"io/fs"
	"sort"

	"verif/sim/simos"
)

var Discard = io.Discard

func ReadAll(r io.Reader) ([]byte, error)  { return io.ReadAll(r) }
func NopCloser(r io.Reader) io.ReadCloser  { return io.NopCloser(r) }
func ReadFile(name string) ([]byte, error) { return simos.ReadFile(name) }
func WriteFile(name string, data []byte, perm fs.FileMode) error {
	return simos.WriteFile(name, data, perm)
}
func TempFile(dir, pattern string) (*simos.File, error) { return simos.CreateTemp(dir, pattern) }
func TempDir(dir, pattern string) (string, error)       { return simos.MkdirTemp(dir, pattern) }
func ReadDir(dirname string) ([]fs.FileInfo, error) {
	l, err := simos.ReadDir(dirname)
	if err != nil {
		return nil, err
	}
	out := make([]fs.FileInfo, 0, len(l))
	for _, e := range l {
		fi, err := e.Info()
		if err != nil {
			return nil, err
		}
		out = append(out, fi)
	}
	sort.Slice(out, func(i, j int) bool { return out[i].Name() < out[j].Name() })
	return out, nil
}
