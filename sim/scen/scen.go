// Package scen holds the scenario, event and value types shared by the driver
// (cmd/simdrive) and the harness that is injected into package snaps at check
// time. Stdlib only: it is compiled into the rewritten go-snaps test binary.
package scen

import (
	"encoding/json"
	"os"
)

// NominalDir is the directory the harness test files pretend to live in (the
// overlay keeps the nominal path of added files).
var NominalDir = func() string {
	if v := os.Getenv("VERIF_NOMINAL"); v != "" {
		return v
	}
	return "/repo/snaps"
}()

// Call-site files. A Match* call made through call site i is seen by the
// library as coming from test file CallSiteFile(i).
// (the third name contains ".snap" on purpose: a test file may be called like that)
var CallSites = []string{"zz_world_a_test.go", "zz_world_b_test.go", "zz_world_c.snapshot_test.go"}

// Pool of real top-level test functions (runner mode), by call-site file.
var Pool = [][]string{
	{"TestA", "TestAB", "TestA1", "Test1", "TestA_x"},
	{"TestB", "TestB_x", "TestSub", "TestBA"},
	{"TestC", "TestC10", "TestC2", "TestOther", "Test日付"},
}

// PoolFile returns the call-site index of a pool test or -1.
func PoolFile(name string) int {
	for i, l := range Pool {
		for _, n := range l {
			if n == name {
				return i
			}
		}
	}
	return -1
}

// APIs.
const (
	APISnapshot = "snapshot"
	APIJSON     = "json"
	APIYAML     = "yaml"
	APISSnap    = "ssnap"
	APISJSON    = "sjson"
)

var APIs = []string{APISnapshot, APIJSON, APIYAML, APISSnap, APISJSON}

func Standalone(api string) bool { return api == APISSnap || api == APISJSON }

// Value is one argument of a Match* call. It can be rebuilt identically by the
// harness (to pass it to the library) and by the driver (to format it with the
// third-party formatter).
type Value struct {
	K string            `json:"k"`           // s: string, ds: defined string type, b: []byte, i: int, ss: []string, m: map[string]int, st: struct, pst: *struct, f: float, n: nil, bo: bool
	S []byte            `json:"s,omitempty"` // payload for s and b (base64 in JSON)
	I int               `json:"i,omitempty"`
	L []string          `json:"l,omitempty"`
	M map[string]int    `json:"m,omitempty"`
	X map[string]string `json:"x,omitempty"` // st / pst fields
}

// Text is a defined string type (like template.HTML or a project's own Markdown type).
type Text string

type Rec struct {
	Name  string
	Age   int
	Tags  []string
	Inner *Rec
}

// Go rebuilds the Go value.
func (v Value) Go() any {
	switch v.K {
	case "s":
		return string(v.S)
	case "ds":
		return Text(v.S)
	case "b":
		return append([]byte{}, v.S...)
	case "i":
		return v.I
	case "ss":
		return append([]string{}, v.L...)
	case "m":
		m := map[string]int{}
		for k, x := range v.M {
			m[k] = x
		}
		return m
	case "st":
		return Rec{Name: v.X["name"], Age: v.I, Tags: append([]string(nil), v.L...)}
	case "pst":
		return &Rec{Name: v.X["name"], Age: v.I, Tags: append([]string(nil), v.L...), Inner: &Rec{Name: v.X["inner"]}}
	case "f":
		return float64(v.I) / 8
	case "bo":
		return v.I != 0
	case "n":
		return nil
	}
	return nil
}

func Str(s string) Value { return Value{K: "s", S: []byte(s)} }

// EffUpdate: the Update option in force (options apply in order, the last one wins).
func (c *ConfigSpec) EffUpdate() *bool {
	if c == nil {
		return nil
	}
	if c.Update2 != nil {
		return c.Update2
	}
	return c.Update
}

// MatcherSpec describes one matcher of a MatchJSON / MatchYAML call.
type MatcherSpec struct {
	Kind      string `json:"kind"` // any, type, custom
	Path      string `json:"path"`
	TypeName  string `json:"type,omitempty"`  // type: string|float64|bool|map|slice
	CustomErr string `json:"cerr,omitempty"`  // custom: error to return ("" = ok)
	CustomVal string `json:"cval,omitempty"`  // custom: replacement (string)
	NoErrMiss bool   `json:"noerr,omitempty"` // ErrOnMissingPath(false)
}

type Call struct {
	ID       int           `json:"id"`
	API      string        `json:"api"`
	Cfg      int           `json:"cfg"` // -1: package level function
	Values   []Value       `json:"values"`
	Matchers []MatcherSpec `json:"matchers,omitempty"`
}

type Step struct {
	Kind string    `json:"kind"` // call, sub, skip
	Call *Call     `json:"call,omitempty"`
	Sub  *TestNode `json:"sub,omitempty"`
	Skip string    `json:"skip,omitempty"` // Skip, Skipf, SkipNow
}

type TestNode struct {
	Name  string `json:"name"`
	Site  int    `json:"site"` // call-site file index (top-level nodes; inherited)
	Steps []Step `json:"steps"`
}

type JSONOpts struct {
	Width    int    `json:"width"`
	Indent   string `json:"indent"`
	SortKeys bool   `json:"sort"`
}

type ConfigSpec struct {
	Dir      *string   `json:"dir,omitempty"`
	Filename *string   `json:"filename,omitempty"`
	Ext      *string   `json:"ext,omitempty"`
	Update   *bool     `json:"update,omitempty"`
	Update2  *bool     `json:"update2,omitempty"` // a second Update option, given after the first (the last one wins)
	JSON     *JSONOpts `json:"json,omitempty"`
	JSON2    *JSONOpts `json:"json2,omitempty"` // a second JSON option, given after the first
}

type CleanSpec struct {
	Opts bool `json:"opts"` // pass a CleanOpts value at all
	Sort bool `json:"sort"`
}

// Fault: inject at the Nth (1-based) operation of kind Kind whose nominal path
// contains PathSuffix performed by call CallID (any context when CallID is -1, only outside Match* calls - i.e. Clean - when it is -2;
// Exec < 0 = any execution).
type Fault struct {
	Kind       string `json:"kind"`
	PathSuffix string `json:"path"`
	CallID     int    `json:"call"`
	Nth        int    `json:"nth"`
	Err        string `json:"err"`             // EIO, ENOSPC, EACCES, ENOENT
	Short      int    `json:"short,omitempty"` // write: really write this many bytes first (-1/0: none)
	ShortOK    bool   `json:"shortok,omitempty"`
	Kill       bool   `json:"kill,omitempty"`
}

type SchedSpec struct {
	Strategy string `json:"strategy"` // uniform, pct, rtc
	Seed     uint64 `json:"seed"`
	Depth    int    `json:"depth"`
	Forced   []int  `json:"forced,omitempty"` // replay: task id per step
	MaxSteps int    `json:"maxsteps"`
}

type Lifetime struct {
	Mode    string            `json:"mode"` // runner, tasks
	Env     map[string]string `json:"env"`
	Run     string            `json:"run,omitempty"`
	Count   int               `json:"count"`
	Race    bool              `json:"race,omitempty"`
	Clean   *CleanSpec        `json:"clean,omitempty"`
	Configs []ConfigSpec      `json:"configs,omitempty"`
	Tests   []*TestNode       `json:"tests"`
	Sched   *SchedSpec        `json:"sched,omitempty"`
	Faults  []Fault           `json:"faults,omitempty"`
	Note    string            `json:"note,omitempty"`
	// Shuffle: -test.shuffle seed (0 = off): the real runner executes the tests in
	// another order.
	Shuffle int `json:"shuffle,omitempty"`
	// PreDelete: before this lifetime starts, the driver deletes the n-th (modulo the
	// number present, in path order) standalone snapshot file - a user removing a
	// file by hand. 0 = nothing.
	PreDelete int `json:"predelete,omitempty"`
	// PreCorrupt: before this lifetime starts, the driver damages one snapshot file the
	// way a crash or a bad disk does (the value selects file and kind: torn tail, one
	// flipped byte, a half-written entry appended, the last terminator lost, emptied).
	// The file is no longer predicted; only the narrow oracles apply to it. 0 = nothing.
	PreCorrupt int `json:"precorrupt,omitempty"`
	// PreEdit: before this lifetime starts, the driver makes a harmless hand edit to one
	// multi-entry snapshot file: extra blank lines between (or before) its entries. The
	// file stays predicted - the library ignores such lines. 0 = nothing.
	PreEdit int `json:"preedit,omitempty"`
	// PreLink: before this lifetime starts, the driver moves one predicted snapshot file
	// to a store outside the snapshot directories and leaves a symbolic link to it under
	// the file's name (golden files kept elsewhere); the file stays predicted.
	PreLink int `json:"prelink,omitempty"`
	// Trimpath: this lifetime runs the test binary that was built with -trimpath (the
	// library then resolves relative snapshot directories against the working directory,
	// which for `go test` is the package directory - the same place).
	Trimpath bool `json:"trimpath,omitempty"`
	// FreshCfg: build a new Config from the same options for every call
	// (differential oracle of property C12).
	FreshCfg bool `json:"freshcfg,omitempty"`
}

// ---- what a lifetime reports back ----

type Signal struct {
	Kind string `json:"kind"` // error, log, skip, panic
	Text string `json:"text"`
}

type Op struct {
	Seq   int64  `json:"seq"`
	Task  int    `json:"task"`
	Call  int    `json:"call"` // call id, -1 outside calls
	Exec  int    `json:"exec"`
	Kind  string `json:"kind"`
	Path  string `json:"path"`
	Arg   string `json:"arg,omitempty"`
	N     int64  `json:"n,omitempty"`
	Err   string `json:"err,omitempty"`
	Mut   bool   `json:"mut,omitempty"`
	Fault bool   `json:"fault,omitempty"`
	RO    bool   `json:"ro,omitempty"` // the fault is "this file is read-only"
}

type CallEvent struct {
	CallID  int      `json:"call"`
	Exec    int      `json:"exec"` // n-th execution of this call in this lifetime (0-based)
	Task    int      `json:"task"`
	Test    string   `json:"test"`
	Node    int      `json:"node"` // id of the node execution (test execution) that made the call
	Signals []Signal `json:"signals,omitempty"`
	Begin   int64    `json:"begin"` // op seq at begin
	End     int64    `json:"end"`
	Done    bool     `json:"done"`
}

type Report struct {
	Calls      []CallEvent    `json:"calls"`
	Ran        []string       `json:"ran"`       // t.Name() of every node execution, in order
	SkipCalls  []string       `json:"skipcalls"` // t.Name() of every snaps.Skip* call
	Ops        []Op           `json:"ops"`
	CleanRan   bool           `json:"cleanran"`
	CleanOut   string         `json:"cleanout"`
	CleanPanic string         `json:"cleanpanic,omitempty"`
	CleanBegin int64          `json:"cleanbegin"`
	Decisions  []int          `json:"decisions,omitempty"`
	Steps      int            `json:"steps"`
	SchedHash  uint64         `json:"schedhash"`
	ConfHash   uint64         `json:"confhash"`
	Deadlock   string         `json:"deadlock,omitempty"`
	StepCap    bool           `json:"stepcap,omitempty"`
	Forcedmiss int            `json:"forcedmiss,omitempty"`
	Killed     bool           `json:"killed,omitempty"`
	Fatal      string         `json:"fatal,omitempty"`
	Complete   bool           `json:"complete"`
	Probes     map[string]int `json:"probes,omitempty"`
}

func LoadLifetime(path string) (*Lifetime, error) {
	b, err := os.ReadFile(path)
	if err != nil {
		return nil, err
	}
	var l Lifetime
	if err := json.Unmarshal(b, &l); err != nil {
		return nil, err
	}
	return &l, nil
}

// ---- one PRNG for everything ----

type Rand struct{ s uint64 }

func NewRand(seed uint64) *Rand { return &Rand{s: seed} }

func Mix(a, b uint64) uint64 {
	z := a + 0x9e3779b97f4a7c15*(b+1)
	z = (z ^ (z >> 30)) * 0xbf58476d1ce4e5b9
	z = (z ^ (z >> 27)) * 0x94d049bb133111eb
	return z ^ (z >> 31)
}

func (r *Rand) U64() uint64 {
	r.s += 0x9e3779b97f4a7c15
	z := r.s
	z = (z ^ (z >> 30)) * 0xbf58476d1ce4e5b9
	z = (z ^ (z >> 27)) * 0x94d049bb133111eb
	return z ^ (z >> 31)
}

func (r *Rand) Intn(n int) int {
	if n <= 0 {
		return 0
	}
	return int(r.U64() % uint64(n))
}

func (r *Rand) Float() float64      { return float64(r.U64()>>11) / (1 << 53) }
func (r *Rand) Bool(p float64) bool { return r.Float() < p }
func (r *Rand) Fork() *Rand         { return NewRand(r.U64()) }
